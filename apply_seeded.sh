#!/bin/sh
# usage: apply_seeded.sh <patch> <command...>   applies a seeded change to /repo, runs the command, reverts the change.
# Refuses to run when /repo has uncommitted changes (they would be lost by the revert).
if [ -n "$(git -C /repo status --porcelain)" ]; then echo "refusing: /repo has uncommitted changes"; exit 3; fi
p="$1"; shift
git -C /repo apply "$p" || { echo "patch does not apply"; exit 4; }
"$@"; rc=$?
git -C /repo apply -R "$p"
exit $rc
