#!/bin/sh
# Behaviour-preserving edits must stay silent: apply each patch to /repo, run the quick checks
# of the properties whose functions live in the touched file, expect exit 0, undo the patch.
if [ -n "$(git -C /repo status --porcelain)" ]; then echo "refusing: /repo has uncommitted changes"; exit 3; fi
rc=0
for f in ${HARMLESS_FILES:-/verif/harmless/h*.diff /verif/harmless/g*.diff /verif/harmless/k*.diff /verif/harmless/q*.diff}; do
  [ -f "$f" ] || continue
  file=$(grep '^+++ b/' $f | head -1 | sed 's/+++ b\///')
  case "$file" in
    *protocol/process.go) props="C01 C03 C06 C07 C10 C16 C17" ;;
    *protocol/common.go) props="C06 C07 C08 C10 C11 C16" ;;
    *protocol/gateway.go) props="C01 C07 C08 C10 C11" ;;
    *protocol/track.go) props="C07 C10 C11" ;;
    *transport/legacy.go|*transport/websocket.go) props="C06 C08 C10 C11" ;;
    *web/session.go) props="C13 C04 C10" ;;
    *protocol/tunnel.go|*protocol/client.go) props="C01 C06 C07 C08 C10 C11" ;;
    *security/basic.go) props="C03 C10" ;;
    *security/jwt.go) props="C02 C03 C04 C07 C12 C15 C10" ;;
    *web/basic.go|*web/ntlm.go) props="C05 C10" ;;
    *web/oidc.go) props="C12 C13 C10" ;;
    *web/context.go) props="C04 C05 C10" ;;
    *cmd/rdpgw/main.go) props="C02 C03 C04 C05 C10 C13 C16 C17" ;;
    *web/web.go) props="C12 C18 C10" ;;
    *config/configuration.go) props="C18 C05 C10" ;;
    *kdcproxy/proxy.go) props="C20 C10" ;;
    *auth/ntlm/ntlm.go) props="C14 C10" ;;
    *) props="C10" ;;
  esac
  git -C /repo apply "$f" || { echo "$(basename $f): patch does not apply"; rc=1; continue; }
  res=""
  for p in $props; do
    out=$(cd /verif && timeout 900 bin/gocv check -p $p 2>&1); code=$?
    if [ $code -ne 0 ]; then res="$res $p:exit$code($(echo "$out" | grep -c '^VIOLATION')v,$(echo "$out" | grep -c 'ENGINE-LIMIT')e)"; rc=1; fi
  done
  git -C /repo apply -R "$f"
  if [ -z "$res" ]; then echo "$(basename $f) [$file]: silent on $props"; else echo "$(basename $f) [$file]: ALARM$res"; fi
done
exit $rc
