#!/bin/sh
# must-fail canaries written by hand (see selfmut/README.md)
if [ -n "$(git -C /repo status --porcelain)" ]; then echo "refusing: /repo has uncommitted changes"; exit 3; fi
rc=0
for f in /verif/selfmut/*.diff; do
  n=$(basename $f .diff)
  case $n in m1|m2|m3|m6) p=C17;; m4|m5) p=C16;; w*) p=C04;; r1|r2|r3|r7|r8) p=C05;; r4) p=C03;; r5) p=C16;; r6) p=C04;; r9) p=C17;; n0) p=C10;; n2|n3|n4|n5|n6) p=C14;; *) p=$(grep "^| $n " /verif/selfmut/README.md | awk -F'|' '{gsub(/ /,"",$4); print $4}');; esac
  git -C /repo apply "$f" || { echo "$n: patch does not apply"; rc=1; continue; }
  out=$(cd /verif && timeout 900 bin/gocv check -p $p 2>&1); code=$?
  git -C /repo apply -R "$f"
  if [ $code -eq 1 ]; then echo "$n: DETECTED by $p ($(echo "$out" | grep -c '^VIOLATION') violation lines)"; else echo "$n: MISSED by $p (exit $code)"; rc=1; fi
done
exit $rc
