// Belongs in cmd/rdpgw/web (package web):  cd cmd/rdpgw/web && go test -vet=off -count=1 -run 'TestX2' -v .
//
// X2 (C05): the gateway endpoint picks the authentication handler with
// HeadersRegexp("Authorization", "NTLM" | "Negotiate" | "Basic") (cmd/rdpgw/main.go).
// The patterns are unanchored: they match anywhere in the header value, also
// inside the base64 text of ANOTHER scheme, and the first registered route wins.
// With `authentication: [local, ntlm]` a correct `Authorization: Basic ...`
// header whose base64 text contains "NTLM" is handed to the NTLM handler, which
// refuses it: correct credentials of an enabled scheme, confirmed by the
// authentication backend, never reach the tunnel handler.
//
// The router below is built with the very calls of main.go (lines 203-249) for
// authentication = [local, ntlm]; the authentication service is a gRPC server
// on a unix socket like cmd/auth (PAM replaced by a table, NTLM by the real
// verifier of cmd/auth/ntlm).
package web

import (
	"context"
	"encoding/base64"
	"net"
	"net/http"
	"net/http/httptest"
	"os"
	"path/filepath"
	"strings"
	"sync/atomic"
	"testing"

	authcfg "github.com/bolkedebruin/rdpgw/cmd/auth/config"
	"github.com/bolkedebruin/rdpgw/cmd/auth/database"
	"github.com/bolkedebruin/rdpgw/cmd/auth/ntlm"
	"github.com/bolkedebruin/rdpgw/cmd/rdpgw/identity"
	"github.com/bolkedebruin/rdpgw/shared/auth"
	"github.com/gorilla/mux"
	"google.golang.org/grpc"
)

type x2Backend struct {
	auth.UnimplementedAuthenticateServer
	users map[string]string
	ntlm  *ntlm.NTLMAuth
}

func (b *x2Backend) Authenticate(_ context.Context, m *auth.UserPass) (*auth.AuthResponse, error) {
	pw, ok := b.users[m.Username]
	return &auth.AuthResponse{Authenticated: ok && pw != "" && pw == m.Password}, nil
}

func (b *x2Backend) NTLM(_ context.Context, m *auth.NtlmRequest) (*auth.NtlmResponse, error) {
	return b.ntlm.Authenticate(m)
}

// x2Router is the route table of main.go for the given mechanisms; reached
// counts the requests that get to the tunnel handler and records its user
func x2Router(t *testing.T, enableNtlm, enableBasic bool, kerberos http.Handler) (http.Handler, *int32, *atomic.Value) {
	users := map[string]string{"alice": "pSS,été", "bob": "secret"}
	dir, err := os.MkdirTemp("", "x2")
	if err != nil {
		t.Fatal(err)
	}
	t.Cleanup(func() { os.RemoveAll(dir) })
	sock := filepath.Join(dir, "auth.sock")
	ln, err := net.Listen("unix", sock)
	if err != nil {
		t.Fatal(err)
	}
	var ucfg []authcfg.UserConfig
	for u, p := range users {
		ucfg = append(ucfg, authcfg.UserConfig{Username: u, Password: p})
	}
	srv := grpc.NewServer()
	auth.RegisterAuthenticateServer(srv, &x2Backend{users: users, ntlm: ntlm.NewNTLMAuth(database.NewConfig(ucfg))})
	go srv.Serve(ln)
	t.Cleanup(srv.Stop)

	InitStore([]byte("thisisasessionkeyreplacethisjetz"), []byte("thisisasessionkeyreplacethisjetz"), "cookie", 0)

	var reached int32
	var user atomic.Value
	user.Store("")
	tunnelHandler := func(w http.ResponseWriter, r *http.Request) { // stands for gw.HandleGatewayProtocol
		atomic.AddInt32(&reached, 1)
		user.Store(identity.FromRequestCtx(r).UserName())
		w.WriteHeader(http.StatusOK)
	}

	// ---- cmd/rdpgw/main.go, lines 203 ff.
	r := mux.NewRouter()
	r.Use(EnrichContext)
	rdp := r.PathPrefix("/remoteDesktopGateway/").Subrouter()
	am := NewAuthMux()
	rdp.MatcherFunc(NoAuthz).HandlerFunc(am.SetAuthenticate)
	if enableNtlm {
		n := NTLMAuthHandler{SocketAddress: sock, Timeout: 5}
		rdp.NewRoute().HeadersRegexp("Authorization", "NTLM").HandlerFunc(n.NTLMAuth(tunnelHandler))
		rdp.NewRoute().HeadersRegexp("Authorization", "Negotiate").HandlerFunc(n.NTLMAuth(tunnelHandler))
		am.Register(`NTLM`)
		am.Register(`Negotiate`)
	}
	if enableBasic {
		q := BasicAuthHandler{SocketAddress: sock, Timeout: 5}
		rdp.NewRoute().HeadersRegexp("Authorization", "Basic").HandlerFunc(q.BasicAuth(tunnelHandler))
		am.Register(`Basic realm="restricted", charset="UTF-8"`)
	}
	if kerberos != nil {
		rdp.NewRoute().HeadersRegexp("Authorization", "Negotiate").Handler(kerberos)
		am.Register("Negotiate")
	}
	return r, &reached, &user
}

func x2Request(h http.Handler, authorization string) *httptest.ResponseRecorder {
	req := httptest.NewRequest("RDG_OUT_DATA", "/remoteDesktopGateway/", nil)
	req.Header.Set("Authorization", authorization)
	rec := httptest.NewRecorder()
	h.ServeHTTP(rec, req)
	return rec
}

func TestX2_BasicCredentialsContainingNTLM(t *testing.T) {
	h, reached, user := x2Router(t, true, true, nil)

	// control: bob's correct password reaches the tunnel handler as bob
	rec := x2Request(h, "Basic "+base64.StdEncoding.EncodeToString([]byte("bob:secret")))
	if rec.Code != 200 || atomic.LoadInt32(reached) != 1 || user.Load() != "bob" {
		t.Fatalf("control: bob with the right password: status %d, reached %d, user %q", rec.Code, *reached, user.Load())
	}
	// control: a wrong password does not
	rec = x2Request(h, "Basic "+base64.StdEncoding.EncodeToString([]byte("alice:wrong")))
	if rec.Code != 401 || atomic.LoadInt32(reached) != 1 {
		t.Fatalf("control: alice with a wrong password: status %d, reached %d", rec.Code, *reached)
	}

	// alice's correct password (UTF-8, the charset the challenge announces)
	cred := base64.StdEncoding.EncodeToString([]byte("alice:pSS,été"))
	t.Logf("Authorization: Basic %s", cred)
	if !strings.Contains(cred, "NTLM") {
		t.Fatal("test set-up: the base64 text was meant to contain NTLM")
	}
	rec = x2Request(h, "Basic "+cred)
	if rec.Code != 200 || atomic.LoadInt32(reached) != 2 || user.Load() != "alice" {
		t.Fatalf("C05 violated: correct Basic credentials of alice (confirmed by the backend) do not reach the tunnel handler: status %d, WWW-Authenticate %q, handler reached %d times, user %q",
			rec.Code, rec.Header().Values("WWW-Authenticate"), atomic.LoadInt32(reached)-1, user.Load())
	}
}

// the same with authentication = [local, kerberos]: the Basic route is
// registered before the kerberos route, a Negotiate header whose token text
// contains "Basic" is never shown to the kerberos handler
func TestX2_NegotiateTokenContainingBasic(t *testing.T) {
	var kerberosSaw int32
	krb := http.HandlerFunc(func(w http.ResponseWriter, r *http.Request) { // stands for spnego.SPNEGOKRB5Authenticate(...)
		atomic.AddInt32(&kerberosSaw, 1)
		w.WriteHeader(http.StatusOK)
	})
	h, _, _ := x2Router(t, false, true, krb)

	rec := x2Request(h, "Negotiate YIIFzQYGKwYBBQUCoIIFwTCCBb2gMDAu")
	if rec.Code != 200 || atomic.LoadInt32(&kerberosSaw) != 1 {
		t.Fatalf("control: Negotiate header not routed to kerberos: %d", rec.Code)
	}
	rec = x2Request(h, "Negotiate YIIFzQYGKwYBBQUCoIIFwTCCBb2gMDAuBasicQYJKoZIhvcSAQICBgkqhkiG9xIBAgIG")
	if atomic.LoadInt32(&kerberosSaw) != 2 {
		t.Fatalf("C05 violated: a Negotiate header whose token text contains \"Basic\" is answered by the Basic handler (status %d, WWW-Authenticate %q), the kerberos handler never sees it",
			rec.Code, rec.Header().Values("WWW-Authenticate"))
	}
}
