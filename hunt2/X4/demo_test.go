// Belongs in cmd/rdpgw (package main):  go test -vet=off -count=1 -run 'TestX4' -v ./cmd/rdpgw/
//
// X4 (C12, last sentence): "Under round-robin, unsigned and 'any' selection that
// host and token, presented unmodified from the same address within the
// token's lifetime, are accepted by the gateway's own tunnel checks."
//
// A host without an explicit port ("full address:s:rdp.example.com" is what
// most connection files look like, the port defaults to 3389) is issued into
// the file and into the token as it is, but the tunnel check compares the token
// host with net.JoinHostPort(server, port) of the channel request, which always
// carries a port. The file the gateway just issued is refused by the gateway.
//
// The harness (fake IdP, gateway wired like main() for an openid configuration,
// websocket RDG client) is self contained.
package main

import (
	"bytes"
	"crypto/rand"
	"crypto/rsa"
	"encoding/binary"
	"encoding/json"
	"fmt"
	"io"
	"net"
	"net/http"
	"net/http/cookiejar"
	"net/http/httptest"
	"net/url"
	"strings"
	"sync"
	"testing"
	"time"

	"github.com/bolkedebruin/rdpgw/cmd/rdpgw/protocol"
	"github.com/bolkedebruin/rdpgw/cmd/rdpgw/security"
	"github.com/bolkedebruin/rdpgw/cmd/rdpgw/web"
	"github.com/go-jose/go-jose/v4"
	"github.com/go-jose/go-jose/v4/jwt"
	"github.com/gorilla/mux"
	"github.com/gorilla/websocket"
)

// ---------------------------------------------------------------- fake IdP

type idpUserX4 struct {
	Sub               string
	PreferredUsername interface{}
	Extra             map[string]interface{}
}

type fakeIdPX4 struct {
	srv      *httptest.Server
	key      *rsa.PrivateKey
	clientID string
	mu       sync.Mutex
	codes    map[string]idpUserX4 // code -> user
	tokens   map[string]idpUserX4 // access token -> user
	n        int
	// hooks
	TokenHook func(resp map[string]interface{}, claims map[string]interface{})
}

func newFakeIdPX4(t *testing.T, clientID string) *fakeIdPX4 {
	key, err := rsa.GenerateKey(rand.Reader, 2048)
	if err != nil {
		t.Fatal(err)
	}
	p := &fakeIdPX4{key: key, clientID: clientID, codes: map[string]idpUserX4{}, tokens: map[string]idpUserX4{}}
	m := http.NewServeMux()
	m.HandleFunc("/.well-known/openid-configuration", func(w http.ResponseWriter, r *http.Request) {
		json.NewEncoder(w).Encode(map[string]interface{}{
			"issuer":                                p.srv.URL,
			"authorization_endpoint":                p.srv.URL + "/auth",
			"token_endpoint":                        p.srv.URL + "/token",
			"jwks_uri":                              p.srv.URL + "/keys",
			"userinfo_endpoint":                     p.srv.URL + "/userinfo",
			"id_token_signing_alg_values_supported": []string{"RS256"},
		})
	})
	m.HandleFunc("/keys", func(w http.ResponseWriter, r *http.Request) {
		json.NewEncoder(w).Encode(jose.JSONWebKeySet{Keys: []jose.JSONWebKey{{Key: &key.PublicKey, KeyID: "k1", Algorithm: "RS256", Use: "sig"}}})
	})
	m.HandleFunc("/token", func(w http.ResponseWriter, r *http.Request) {
		r.ParseForm()
		code := r.Form.Get("code")
		p.mu.Lock()
		u, ok := p.codes[code]
		delete(p.codes, code)
		p.n++
		at := fmt.Sprintf("at-%d-%s", p.n, u.Sub)
		if ok {
			p.tokens[at] = u
		}
		p.mu.Unlock()
		if !ok {
			w.WriteHeader(400)
			json.NewEncoder(w).Encode(map[string]string{"error": "invalid_grant"})
			return
		}
		claims := map[string]interface{}{
			"iss": p.srv.URL, "aud": p.clientID, "sub": u.Sub,
			"exp": time.Now().Add(5 * time.Minute).Unix(), "iat": time.Now().Unix(),
		}
		if u.PreferredUsername != nil {
			claims["preferred_username"] = u.PreferredUsername
		}
		for k, v := range u.Extra {
			claims[k] = v
		}
		resp := map[string]interface{}{"access_token": at, "token_type": "Bearer", "expires_in": 300}
		if p.TokenHook != nil {
			p.TokenHook(resp, claims)
		}
		if _, has := resp["id_token"]; !has {
			resp["id_token"] = p.sign(t, claims)
		}
		if resp["id_token"] == nil {
			delete(resp, "id_token")
		}
		w.Header().Set("Content-Type", "application/json")
		json.NewEncoder(w).Encode(resp)
	})
	m.HandleFunc("/userinfo", func(w http.ResponseWriter, r *http.Request) {
		at := strings.TrimPrefix(r.Header.Get("Authorization"), "Bearer ")
		p.mu.Lock()
		u, ok := p.tokens[at]
		p.mu.Unlock()
		if !ok {
			w.WriteHeader(401)
			return
		}
		out := map[string]interface{}{"sub": u.Sub}
		if u.PreferredUsername != nil {
			out["preferred_username"] = u.PreferredUsername
		}
		w.Header().Set("Content-Type", "application/json")
		json.NewEncoder(w).Encode(out)
	})
	p.srv = httptest.NewServer(m)
	t.Cleanup(p.srv.Close)
	return p
}

func (p *fakeIdPX4) sign(t *testing.T, claims map[string]interface{}) string {
	sig, err := jose.NewSigner(jose.SigningKey{Algorithm: jose.RS256, Key: jose.JSONWebKey{Key: p.key, KeyID: "k1"}}, nil)
	if err != nil {
		t.Fatal(err)
	}
	s, err := jwt.Signed(sig).Claims(claims).Serialize()
	if err != nil {
		t.Fatal(err)
	}
	return s
}

func (p *fakeIdPX4) newCode(u idpUserX4) string {
	p.mu.Lock()
	defer p.mu.Unlock()
	p.n++
	c := fmt.Sprintf("code-%d", p.n)
	p.codes[c] = u
	return c
}

// ---------------------------------------------------------------- gateway

type gwOptsX4 struct {
	Hosts         []string
	HostSelection string
	SessionStore  string
	Client        web.RdpOpts
}

type testGWX4 struct {
	srv *httptest.Server
	idp *fakeIdPX4
}

const k32X4 = "0123456789abcdef0123456789abcdef"

// startGatewayX4 wires the handlers exactly like main() does for an openid only configuration.
func startGatewayX4(t *testing.T, o gwOptsX4) *testGWX4 {
	idp := newFakeIdPX4(t, "rdpgw-client")
	conf.OpenId.ProviderUrl = idp.srv.URL
	conf.OpenId.ClientId = "rdpgw-client"
	conf.OpenId.ClientSecret = "secret"

	security.VerifyClientIP = true
	security.SigningKey = []byte(k32X4)
	security.EncryptionKey = []byte(k32X4)
	security.HostSelection = o.HostSelection
	security.Hosts = o.Hosts
	if o.SessionStore == "" {
		o.SessionStore = "cookie"
	}
	web.InitStore([]byte(k32X4), []byte(k32X4), o.SessionStore, 0)

	r := mux.NewRouter()
	srv := httptest.NewServer(r)
	t.Cleanup(srv.Close)
	u, _ := url.Parse(srv.URL)
	cb := *u
	cb.Path = "callback"

	w := &web.Config{
		QueryInfo:         security.QueryInfo,
		Hosts:             o.Hosts,
		HostSelection:     o.HostSelection,
		RdpOpts:           o.Client,
		GatewayAddress:    &cb,
		PAATokenGenerator: security.GeneratePAAToken,
	}
	h := w.NewHandler()
	gw := protocol.Gateway{TokenAuth: true}
	gw.CheckPAACookie = security.CheckPAACookie
	gw.CheckHost = security.CheckSession(security.CheckHost)

	r.Use(web.EnrichContext)
	r.HandleFunc("/tokeninfo", web.TokenInfo)
	rdp := r.PathPrefix(gatewayEndPoint).Subrouter()
	oi := initOIDC(&cb)
	r.Handle("/connect", oi.Authenticated(http.HandlerFunc(h.HandleDownload)))
	r.HandleFunc("/callback", oi.HandleCallback)
	rdp.Name("gw").HandlerFunc(gw.HandleGatewayProtocol)
	return &testGWX4{srv: srv, idp: idp}
}

type browserX4 struct {
	c *http.Client
}

func newBrowserX4() *browserX4 {
	jar, _ := cookiejar.New(nil)
	return &browserX4{c: &http.Client{Jar: jar, Timeout: 15 * time.Second,
		CheckRedirect: func(*http.Request, []*http.Request) error { return http.ErrUseLastResponse }}}
}

func (b *browserX4) get(t *testing.T, u string, hdr ...string) (*http.Response, string) {
	t.Helper()
	req, _ := http.NewRequest("GET", u, nil)
	for i := 0; i+1 < len(hdr); i += 2 {
		req.Header.Set(hdr[i], hdr[i+1])
	}
	resp, err := b.c.Do(req)
	if err != nil {
		t.Fatalf("GET %s: %v", u, err)
	}
	defer resp.Body.Close()
	body, _ := io.ReadAll(resp.Body)
	return resp, string(body)
}

// login drives /connect -> IdP -> /callback and returns the state that was used.
func (g *testGWX4) login(t *testing.T, b *browserX4, u idpUserX4, connectQuery string) string {
	t.Helper()
	resp, _ := b.get(t, g.srv.URL+"/connect"+connectQuery)
	if resp.StatusCode != 302 {
		t.Fatalf("expected redirect to idp, got %d", resp.StatusCode)
	}
	loc, _ := url.Parse(resp.Header.Get("Location"))
	state := loc.Query().Get("state")
	code := g.idp.newCode(u)
	resp, body := b.get(t, g.srv.URL+"/callback?state="+state+"&code="+code)
	if resp.StatusCode != 302 {
		t.Fatalf("callback failed: %d %s", resp.StatusCode, body)
	}
	return state
}

func rdpFileX4(body string) map[string]string {
	ret := map[string]string{}
	for _, l := range strings.Split(body, "\r\n") {
		d := strings.SplitN(l, ":", 3)
		if len(d) == 3 {
			ret[d[0]] = d[2]
		}
	}
	return ret
}

// ---------------------------------------------------------------- rdg client (websocket transport)

type methodConnX4 struct {
	net.Conn
	first bool
}

func (m *methodConnX4) Write(b []byte) (int, error) {
	if !m.first {
		m.first = true
		if bytes.HasPrefix(b, []byte("GET ")) {
			nb := append([]byte("RDG_OUT_DATA "), b[4:]...)
			_, err := m.Conn.Write(nb)
			return len(b), err
		}
	}
	return m.Conn.Write(b)
}

func pktX4(pt uint16, data []byte) []byte {
	buf := new(bytes.Buffer)
	binary.Write(buf, binary.LittleEndian, pt)
	binary.Write(buf, binary.LittleEndian, uint16(0))
	binary.Write(buf, binary.LittleEndian, uint32(len(data)+8))
	buf.Write(data)
	return buf.Bytes()
}

type rdgResultX4 struct {
	Handshake, Tunnel, TunnelAuth, Channel uint32
	Stage                                  string
}

// rdgConnectX4 runs handshake, tunnel create (with cookie), tunnel auth and channel create for server:port.
func rdgConnectX4(t *testing.T, gwURL string, token string, server string, port uint16, hdr http.Header) rdgResultX4 {
	t.Helper()
	res := rdgResultX4{Handshake: 0xffffffff, Tunnel: 0xffffffff, TunnelAuth: 0xffffffff, Channel: 0xffffffff}
	u, _ := url.Parse(gwURL)
	d := websocket.Dialer{NetDial: func(network, addr string) (net.Conn, error) {
		c, err := net.Dial(network, addr)
		if err != nil {
			return nil, err
		}
		return &methodConnX4{Conn: c}, nil
	}}
	if hdr == nil {
		hdr = http.Header{}
	}
	hdr.Set("Rdg-Connection-Id", fmt.Sprintf("{%d}", time.Now().UnixNano()))
	ws, _, err := d.Dial("ws://"+u.Host+gatewayEndPoint, hdr)
	if err != nil {
		t.Fatalf("websocket dial: %v", err)
	}
	defer ws.Close()
	ws.SetReadDeadline(time.Now().Add(20 * time.Second))
	read := func() (uint16, []byte, bool) {
		_, msg, err := ws.ReadMessage()
		if err != nil || len(msg) < 8 {
			return 0, nil, false
		}
		return binary.LittleEndian.Uint16(msg), msg[8:], true
	}
	// handshake
	ws.WriteMessage(websocket.BinaryMessage, pktX4(protocol.PKT_TYPE_HANDSHAKE_REQUEST, []byte{1, 0, 0, 0, protocol.HTTP_EXTENDED_AUTH_PAA, 0}))
	res.Stage = "handshake"
	_, b, ok := read()
	if !ok {
		return res
	}
	res.Handshake = binary.LittleEndian.Uint32(b)
	if res.Handshake != 0 {
		return res
	}
	// tunnel create
	buf := new(bytes.Buffer)
	binary.Write(buf, binary.LittleEndian, uint32(protocol.HTTP_CAPABILITY_IDLE_TIMEOUT))
	binary.Write(buf, binary.LittleEndian, uint16(protocol.HTTP_TUNNEL_PACKET_FIELD_PAA_COOKIE))
	binary.Write(buf, binary.LittleEndian, uint16(0))
	tk := protocol.EncodeUTF16(token)
	binary.Write(buf, binary.LittleEndian, uint16(len(tk)))
	buf.Write(tk)
	ws.WriteMessage(websocket.BinaryMessage, pktX4(protocol.PKT_TYPE_TUNNEL_CREATE, buf.Bytes()))
	res.Stage = "tunnel"
	_, b, ok = read()
	if !ok {
		return res
	}
	res.Tunnel = binary.LittleEndian.Uint32(b[2:])
	if res.Tunnel != 0 {
		return res
	}
	// tunnel auth
	buf = new(bytes.Buffer)
	cn := protocol.EncodeUTF16("client")
	binary.Write(buf, binary.LittleEndian, uint16(len(cn)))
	buf.Write(cn)
	ws.WriteMessage(websocket.BinaryMessage, pktX4(protocol.PKT_TYPE_TUNNEL_AUTH, buf.Bytes()))
	res.Stage = "tunnelauth"
	_, b, ok = read()
	if !ok {
		return res
	}
	res.TunnelAuth = binary.LittleEndian.Uint32(b)
	if res.TunnelAuth != 0 {
		return res
	}
	// channel create
	buf = new(bytes.Buffer)
	buf.Write([]byte{1, 0})
	binary.Write(buf, binary.LittleEndian, port)
	binary.Write(buf, binary.LittleEndian, uint16(3))
	sn := protocol.EncodeUTF16(server)
	binary.Write(buf, binary.LittleEndian, uint16(len(sn)))
	buf.Write(sn)
	ws.WriteMessage(websocket.BinaryMessage, pktX4(protocol.PKT_TYPE_CHANNEL_CREATE, buf.Bytes()))
	res.Stage = "channel"
	_, b, ok = read()
	if !ok {
		return res
	}
	res.Channel = binary.LittleEndian.Uint32(b)
	return res
}

func backendX4(t *testing.T) (string, uint16) {
	l, err := net.Listen("tcp", "127.0.0.1:0")
	if err != nil {
		t.Fatal(err)
	}
	t.Cleanup(func() { l.Close() })
	go func() {
		for {
			c, err := l.Accept()
			if err != nil {
				return
			}
			go io.Copy(io.Discard, c)
		}
	}()
	return l.Addr().String(), uint16(l.Addr().(*net.TCPAddr).Port)
}


// what an RDP client does with "full address:s:<value>": no port means 3389
func splitFullAddressX4(t *testing.T, a string) (string, uint16) {
	host, p, err := net.SplitHostPort(a)
	if err != nil {
		return a, 3389
	}
	var pi int
	fmt.Sscan(p, &pi)
	return host, uint16(pi)
}

func x4Run(t *testing.T, selection string, hosts []string, query string) {
	g := startGatewayX4(t, gwOptsX4{Hosts: hosts, HostSelection: selection})
	b := newBrowserX4()
	g.login(t, b, idpUserX4{Sub: "alice", PreferredUsername: "alice"}, query)
	resp, body := b.get(t, g.srv.URL+"/connect"+query)
	if resp.StatusCode != 200 {
		t.Fatalf("/connect after login: %d %s", resp.StatusCode, body)
	}
	f := rdpFileX4(body)
	server, port := splitFullAddressX4(t, f["full address"])
	r := rdgConnectX4(t, g.srv.URL, f["gatewayaccesstoken"], server, port, nil)
	t.Logf("%s: issued file: full address=%q -> channel create server=%q port=%d; handshake=%#x tunnel-create=%#x tunnel-auth=%#x channel-create=%#x",
		selection, f["full address"], server, port, r.Handshake, r.Tunnel, r.TunnelAuth, r.Channel)
	if r.Tunnel != 0 {
		t.Fatalf("token of the issued file refused at tunnel create: %#x", r.Tunnel)
	}
	if r.Channel == uint32(protocol.E_PROXY_RAP_ACCESSDENIED) {
		t.Errorf("C12 violated (%s): host %q of the issued file, presented unmodified with its token from the issuing address, is refused by the gateway's own host check: channel response %#x (E_PROXY_RAP_ACCESSDENIED)",
			selection, f["full address"], r.Channel)
	}
}

// control: the same with an explicit port passes the policy check
func TestX4_Control_HostWithPort(t *testing.T) {
	_, port := backendX4(t)
	x4Run(t, "any", []string{"unused:3389"}, fmt.Sprintf("?host=127.0.0.1:%d", port))
}

func TestX4_Any_HostWithoutPort(t *testing.T) {
	x4Run(t, "any", []string{"unused:3389"}, "?host=localhost")
}

func TestX4_RoundRobin_HostWithoutPort(t *testing.T) {
	x4Run(t, "roundrobin", []string{"localhost"}, "")
}

func TestX4_Unsigned_HostWithoutPort(t *testing.T) {
	x4Run(t, "unsigned", []string{"localhost", "other:3389"}, "?host=localhost")
}
