// Belongs in cmd/rdpgw/protocol (package protocol):  cd cmd/rdpgw/protocol && go test -vet=off -count=1 -run 'TestX3' -v .
//
// X3 (C11): client -> host data in flight towards a host that is slow to read
// (its receive window is full), then the client connection drops. The packet
// loop of the tunnel is the goroutine that writes to the host (receive() ->
// out.Write, no deadline); while it is blocked there nobody reads the client
// connection, so the loss of the client is never noticed: the connection to
// the host, the client-facing connection, the registry entry and the gauge stay
// as they are for as long as the host does not read - there is no bound.
package protocol

import (
	"bufio"
	"crypto/rand"
	"encoding/base64"
	"encoding/binary"
	"fmt"
	"io"
	"net"
	"net/http"
	"net/http/httptest"
	"strings"
	"sync"
	"testing"
	"time"
	"unicode/utf16"

	"github.com/bolkedebruin/rdpgw/cmd/rdpgw/identity"
	"github.com/prometheus/client_golang/prometheus/testutil"
)

func x3Pkt(pt uint16, body []byte) []byte {
	b := make([]byte, 8+len(body))
	binary.LittleEndian.PutUint16(b[0:], pt)
	binary.LittleEndian.PutUint32(b[4:], uint32(8+len(body)))
	copy(b[8:], body)
	return b
}

func x3ChannelCreate(host string, port int) []byte {
	u := utf16.Encode([]rune(host + "\x00"))
	n := make([]byte, 2*len(u))
	for i, c := range u {
		binary.LittleEndian.PutUint16(n[2*i:], c)
	}
	b := []byte{1, 0, 0, 0, 3, 0, 0, 0}
	binary.LittleEndian.PutUint16(b[2:], uint16(port))
	binary.LittleEndian.PutUint16(b[6:], uint16(len(n)))
	return x3Pkt(0x8, append(b, n...))
}

// listener that records which accepted connections the server side closed
type x3Listener struct {
	net.Listener
	mu    sync.Mutex
	conns []*x3Conn
}
type x3Conn struct {
	net.Conn
	mu     sync.Mutex
	closed bool
}

func (c *x3Conn) Close() error {
	c.mu.Lock()
	c.closed = true
	c.mu.Unlock()
	return c.Conn.Close()
}
func (l *x3Listener) Accept() (net.Conn, error) {
	c, err := l.Listener.Accept()
	if err != nil {
		return nil, err
	}
	w := &x3Conn{Conn: c}
	l.mu.Lock()
	l.conns = append(l.conns, w)
	l.mu.Unlock()
	return w, nil
}
func (l *x3Listener) open() int {
	l.mu.Lock()
	defer l.mu.Unlock()
	n := 0
	for _, c := range l.conns {
		c.mu.Lock()
		if !c.closed {
			n++
		}
		c.mu.Unlock()
	}
	return n
}

type x3WS struct {
	c  net.Conn
	br *bufio.Reader
}

func x3DialWS(addr string) (*x3WS, error) {
	c, err := net.Dial("tcp", addr)
	if err != nil {
		return nil, err
	}
	key := make([]byte, 16)
	rand.Read(key)
	fmt.Fprintf(c, "RDG_OUT_DATA /remoteDesktopGateway/ HTTP/1.1\r\nHost: %s\r\n"+
		"Connection: Upgrade\r\nUpgrade: websocket\r\nSec-WebSocket-Version: 13\r\n"+
		"Sec-WebSocket-Key: %s\r\nRdg-Connection-Id: {%x}\r\n\r\n",
		addr, base64.StdEncoding.EncodeToString(key), key)
	br := bufio.NewReader(c)
	line, err := br.ReadString('\n')
	if err != nil || !strings.Contains(line, "101") {
		return nil, fmt.Errorf("no upgrade: %q %v", line, err)
	}
	for {
		l, err := br.ReadString('\n')
		if err != nil {
			return nil, err
		}
		if l == "\r\n" {
			break
		}
	}
	return &x3WS{c: c, br: br}, nil
}

func (w *x3WS) send(p []byte) error {
	hdr := []byte{0x82}
	switch {
	case len(p) < 126:
		hdr = append(hdr, 0x80|byte(len(p)))
	case len(p) < 65536:
		hdr = append(hdr, 0x80|126, byte(len(p)>>8), byte(len(p)))
	default:
		l := make([]byte, 8)
		binary.BigEndian.PutUint64(l, uint64(len(p)))
		hdr = append(append(hdr, 0x80|127), l...)
	}
	hdr = append(hdr, 0, 0, 0, 0) // zero mask
	_, err := w.c.Write(append(hdr, p...))
	return err
}

func (w *x3WS) recv() ([]byte, error) {
	h := make([]byte, 2)
	if _, err := io.ReadFull(w.br, h); err != nil {
		return nil, err
	}
	n := uint64(h[1] & 0x7f)
	if n == 126 {
		b := make([]byte, 2)
		io.ReadFull(w.br, b)
		n = uint64(binary.BigEndian.Uint16(b))
	} else if n == 127 {
		b := make([]byte, 8)
		io.ReadFull(w.br, b)
		n = binary.BigEndian.Uint64(b)
	}
	p := make([]byte, n)
	_, err := io.ReadFull(w.br, p)
	return p, err
}

func x3Registered() int {
	connectionsMu.Lock()
	defer connectionsMu.Unlock()
	return len(Connections)
}

func x3Gauge() float64 {
	return testutil.ToFloat64(websocketConnections)
}

func TestX3_ClientDropsWhileHostIsNotReading(t *testing.T) {
	// the host accepts and does not read until it is told to
	ln, err := net.Listen("tcp", "127.0.0.1:0")
	if err != nil {
		t.Fatal(err)
	}
	defer ln.Close()
	startReading := make(chan struct{})
	hostSawEnd := make(chan struct{})
	go func() {
		c, err := ln.Accept()
		if err != nil {
			return
		}
		<-startReading
		io.Copy(io.Discard, c) // returns when the gateway closes (or resets) the connection
		c.Close()
		close(hostSawEnd)
	}()

	gw := &Gateway{}
	srv := httptest.NewUnstartedServer(http.HandlerFunc(func(w http.ResponseWriter, r *http.Request) {
		id := identity.NewUser()
		id.SetAttribute(identity.AttrRemoteAddr, r.RemoteAddr)
		ip, _, _ := net.SplitHostPort(r.RemoteAddr)
		id.SetAttribute(identity.AttrClientIp, ip)
		gw.HandleGatewayProtocol(w, identity.AddToRequestCtx(id, r))
	}))
	l := &x3Listener{Listener: srv.Listener}
	srv.Listener = l
	srv.Start()
	defer srv.Close()

	reg0, gauge0 := x3Registered(), x3Gauge()

	ws, err := x3DialWS(srv.Listener.Addr().String())
	if err != nil {
		t.Fatal(err)
	}
	for _, req := range [][]byte{
		x3Pkt(0x1, []byte{1, 0, 0, 0, 0, 0}),
		x3Pkt(0x4, []byte{0x3f, 0, 0, 0, 0, 0, 0, 0}),
		x3Pkt(0x6, []byte{2, 0, 'c', 0}),
		x3ChannelCreate("127.0.0.1", ln.Addr().(*net.TCPAddr).Port),
	} {
		if err := ws.send(req); err != nil {
			t.Fatal(err)
		}
		ws.c.SetReadDeadline(time.Now().Add(5 * time.Second))
		if _, err := ws.recv(); err != nil {
			t.Fatal(err)
		}
	}
	if x3Registered() != reg0+1 || l.open() != 1 {
		t.Fatalf("set-up: registry %d, open client connections %d", x3Registered(), l.open())
	}

	// the client uploads (e.g. a clipboard or drive transfer) until TCP pushes back
	payload := make([]byte, 32768)
	data := x3Pkt(0xA, append([]byte{0x00, 0x80}, payload...))
	sent := 0
	for {
		ws.c.SetWriteDeadline(time.Now().Add(500 * time.Millisecond))
		if err := ws.send(data); err != nil {
			break
		}
		sent += len(payload)
		if sent > 256<<20 {
			t.Fatal("the gateway buffered more than 256 MiB")
		}
	}
	t.Logf("client -> host data in flight, %d KiB accepted by the gateway before it pushed back", sent>>10)

	// the client connection drops
	ws.c.Close()
	dropped := time.Now()

	// C11: within a bounded time the host connection and the client-facing
	// connection are closed, the tunnel leaves the registry, the gauge is restored
	deadline := dropped.Add(10 * time.Second)
	released := false
	for time.Now().Before(deadline) {
		if x3Registered() == reg0 && l.open() == 0 && x3Gauge() == gauge0 {
			released = true
			break
		}
		time.Sleep(100 * time.Millisecond)
	}
	waited := time.Since(dropped).Round(time.Second)
	reg, open, gauge := x3Registered()-reg0, l.open(), x3Gauge()-gauge0

	// show that it is the unread host connection that holds everything
	close(startReading)
	select {
	case <-hostSawEnd:
	case <-time.After(10 * time.Second):
		t.Log("host connection still open 10 s after the host resumed reading")
	}
	time.Sleep(300 * time.Millisecond)
	t.Logf("after the host resumed reading: registry %+d, client connections open at the server %d, gauge %+v", x3Registered()-reg0, l.open(), x3Gauge()-gauge0)

	if !released {
		t.Fatalf("C11 violated: %v after the client connection dropped the tunnel is still there: registry entries %+d, client-facing connections not closed by the gateway %d, websocket gauge %+v, host connection open", waited, reg, open, gauge)
	}
}
