// Belongs in cmd/rdpgw/protocol (package protocol):  cd cmd/rdpgw/protocol && go test -vet=off -count=1 -run 'TestX5' -v .
//
// X5 (C01, low severity, literal reading): "A packet that arrives out of that
// order is answered with an error status or by ending the tunnel". Packets of
// a type the state machine does not know (quantifier: "unknown packet types",
// "any packet types in any order") fall into the default branch of
// Processor.Process: they are logged and skipped. They get no error status and
// the tunnel does not end - the authorization sequence simply continues around
// them, in every phase, on both transports.
package protocol

import (
	"bufio"
	"crypto/rand"
	"encoding/base64"
	"encoding/binary"
	"fmt"
	"io"
	"net"
	"net/http"
	"net/http/httptest"
	"strings"
	"testing"
	"time"
	"unicode/utf16"

	"github.com/bolkedebruin/rdpgw/cmd/rdpgw/identity"
)

func x5Pkt(pt uint16, body []byte) []byte {
	b := make([]byte, 8+len(body))
	binary.LittleEndian.PutUint16(b[0:], pt)
	binary.LittleEndian.PutUint32(b[4:], uint32(8+len(body)))
	copy(b[8:], body)
	return b
}

func x5ChannelCreate(host string, port int) []byte {
	u := utf16.Encode([]rune(host + "\x00"))
	n := make([]byte, 2*len(u))
	for i, c := range u {
		binary.LittleEndian.PutUint16(n[2*i:], c)
	}
	b := []byte{1, 0, 0, 0, 3, 0, 0, 0}
	binary.LittleEndian.PutUint16(b[2:], uint16(port))
	binary.LittleEndian.PutUint16(b[6:], uint16(len(n)))
	return x5Pkt(0x8, append(b, n...))
}

type x5WS struct {
	c  net.Conn
	br *bufio.Reader
}

func x5DialWS(addr string) (*x5WS, error) {
	c, err := net.Dial("tcp", addr)
	if err != nil {
		return nil, err
	}
	key := make([]byte, 16)
	rand.Read(key)
	fmt.Fprintf(c, "RDG_OUT_DATA /remoteDesktopGateway/ HTTP/1.1\r\nHost: %s\r\n"+
		"Connection: Upgrade\r\nUpgrade: websocket\r\nSec-WebSocket-Version: 13\r\n"+
		"Sec-WebSocket-Key: %s\r\nRdg-Connection-Id: {%x}\r\n\r\n",
		addr, base64.StdEncoding.EncodeToString(key), key)
	br := bufio.NewReader(c)
	line, err := br.ReadString('\n')
	if err != nil || !strings.Contains(line, "101") {
		return nil, fmt.Errorf("no upgrade: %q %v", line, err)
	}
	for {
		l, err := br.ReadString('\n')
		if err != nil {
			return nil, err
		}
		if l == "\r\n" {
			break
		}
	}
	return &x5WS{c: c, br: br}, nil
}

func (w *x5WS) send(p []byte) error {
	hdr := []byte{0x82}
	if len(p) < 126 {
		hdr = append(hdr, 0x80|byte(len(p)))
	} else {
		hdr = append(hdr, 0x80|126, byte(len(p)>>8), byte(len(p)))
	}
	hdr = append(hdr, 0, 0, 0, 0)
	_, err := w.c.Write(append(hdr, p...))
	return err
}

func (w *x5WS) recv(d time.Duration) ([]byte, error) {
	w.c.SetReadDeadline(time.Now().Add(d))
	h := make([]byte, 2)
	if _, err := io.ReadFull(w.br, h); err != nil {
		return nil, err
	}
	n := int(h[1] & 0x7f)
	if n == 126 {
		b := make([]byte, 2)
		io.ReadFull(w.br, b)
		n = int(binary.BigEndian.Uint16(b))
	}
	p := make([]byte, n)
	_, err := io.ReadFull(w.br, p)
	if h[0]&0x0f == 8 {
		return nil, fmt.Errorf("close frame")
	}
	return p, err
}

func TestX5_UnknownPacketTypesAreSkipped(t *testing.T) {
	ln, err := net.Listen("tcp", "127.0.0.1:0")
	if err != nil {
		t.Fatal(err)
	}
	defer ln.Close()
	hostGot := make(chan []byte, 1)
	go func() {
		c, err := ln.Accept()
		if err != nil {
			return
		}
		b := make([]byte, 64)
		c.SetReadDeadline(time.Now().Add(5 * time.Second))
		n, _ := c.Read(b)
		hostGot <- b[:n]
		c.Close()
	}()

	gw := &Gateway{}
	srv := httptest.NewServer(http.HandlerFunc(func(w http.ResponseWriter, r *http.Request) {
		id := identity.NewUser()
		id.SetAttribute(identity.AttrRemoteAddr, r.RemoteAddr)
		ip, _, _ := net.SplitHostPort(r.RemoteAddr)
		id.SetAttribute(identity.AttrClientIp, ip)
		gw.HandleGatewayProtocol(w, identity.AddToRequestCtx(id, r))
	}))
	defer srv.Close()

	ws, err := x5DialWS(srv.Listener.Addr().String())
	if err != nil {
		t.Fatal(err)
	}
	defer ws.c.Close()

	// packets that are not part of the sequence, one before every step:
	// EXTENDED_AUTH_MSG (0x3), SERVICE_MESSAGE (0xB), REAUTH_MESSAGE (0xC),
	// a server-to-client type (TUNNEL_RESPONSE 0x5) and a type that does not exist
	strays := []uint16{0x3, 0xB, 0xC, 0x5, 0xBEEF}
	steps := []struct {
		name   string
		req    []byte
		resp   uint16
		status int
	}{
		{"handshake", x5Pkt(0x1, []byte{1, 0, 0, 0, 0, 0}), 0x2, 0},
		{"tunnel create", x5Pkt(0x4, []byte{0x3f, 0, 0, 0, 0, 0, 0, 0}), 0x5, 2},
		{"tunnel auth", x5Pkt(0x6, []byte{2, 0, 'c', 0}), 0x7, 0},
		{"channel create", x5ChannelCreate("127.0.0.1", ln.Addr().(*net.TCPAddr).Port), 0x9, 0},
	}
	skipped := 0
	for i, s := range steps {
		stray := x5Pkt(strays[i], []byte{0xde, 0xad, 0xbe, 0xef})
		if err := ws.send(stray); err != nil {
			t.Logf("tunnel ended after stray packet %#x (required behaviour)", strays[i])
			return
		}
		if err := ws.send(s.req); err != nil {
			t.Logf("tunnel ended after stray packet %#x (required behaviour)", strays[i])
			return
		}
		p, err := ws.recv(3 * time.Second)
		if err != nil {
			t.Logf("before %s: stray packet type %#x ended the tunnel (%v) - required behaviour", s.name, strays[i], err)
			return
		}
		pt := binary.LittleEndian.Uint16(p)
		st := binary.LittleEndian.Uint32(p[8+s.status:])
		t.Logf("stray packet type %#x before %s: no answer, tunnel goes on; %s answered with type %#x status %#x", strays[i], s.name, s.name, pt, st)
		if pt == s.resp && st == 0 {
			skipped++
		}
	}
	// one more in the open channel, then data
	ws.send(x5Pkt(strays[4], nil))
	ws.send(x5Pkt(0xA, []byte{5, 0, 'h', 'e', 'l', 'l', 'o'}))
	var got []byte
	select {
	case got = <-hostGot:
	case <-time.After(6 * time.Second):
	}
	t.Logf("host received %q after a further stray packet in the open channel", got)

	if skipped > 0 {
		t.Fatalf("C01 violated: %d packets that are not the next step of the sequence (unknown / not-for-the-server types) were neither answered with an error status nor ended the tunnel; every following step got a success response and the host was connected (host received %q)", skipped, got)
	}
}
