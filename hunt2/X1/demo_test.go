// Belongs in cmd/rdpgw/protocol (package protocol):  cd cmd/rdpgw/protocol && go test -vet=off -count=1 -run 'TestX1' -v .
//
// X1 (C08): legacy transport. After the 200 answer to RDG_IN_DATA the gateway
// throws away "some initial data" with ONE raw read of up to 32767 bytes on the
// TCP connection (LegacyPKT.Drain), underneath the bufio reader that feeds the
// chunked reader. How much of the client's byte stream is thrown away therefore
// depends on how TCP delivers it, not on the bytes themselves.
//
// The client byte stream on the IN connection is the same in all tests:
//   <100 bytes the gateway drains> <chunk: HANDSHAKE_REQUEST> ...
// Only the segmentation differs.
package protocol

import (
	"bufio"
	"encoding/binary"
	"fmt"
	"io"
	"net"
	"net/http"
	"net/http/httptest"
	"strings"
	"testing"
	"time"

	"github.com/bolkedebruin/rdpgw/cmd/rdpgw/identity"
)

func x1Pkt(pt uint16, body []byte) []byte {
	b := make([]byte, 8+len(body))
	binary.LittleEndian.PutUint16(b[0:], pt)
	binary.LittleEndian.PutUint32(b[4:], uint32(8+len(body)))
	copy(b[8:], body)
	return b
}

func x1Chunk(p []byte) []byte {
	return []byte(fmt.Sprintf("%x\r\n%s\r\n", len(p), p))
}

func x1Gateway() *httptest.Server {
	gw := &Gateway{}
	return httptest.NewServer(http.HandlerFunc(func(w http.ResponseWriter, r *http.Request) {
		id := identity.NewUser()
		id.SetAttribute(identity.AttrRemoteAddr, r.RemoteAddr)
		ip, _, _ := net.SplitHostPort(r.RemoteAddr)
		id.SetAttribute(identity.AttrClientIp, ip)
		gw.HandleGatewayProtocol(w, identity.AddToRequestCtx(id, r))
	}))
}

func x1ReadHead(br *bufio.Reader) (string, error) {
	status, err := br.ReadString('\n')
	if err != nil {
		return "", err
	}
	for {
		l, err := br.ReadString('\n')
		if err != nil {
			return "", err
		}
		if l == "\r\n" {
			return status, nil
		}
	}
}

// opens the OUT channel, returns a reader positioned after the seed bytes
func x1Out(t *testing.T, addr, id string) (net.Conn, *bufio.Reader) {
	c, err := net.Dial("tcp", addr)
	if err != nil {
		t.Fatal(err)
	}
	fmt.Fprintf(c, "RDG_OUT_DATA /remoteDesktopGateway/ HTTP/1.1\r\nHost: %s\r\nRdg-Connection-Id: %s\r\n\r\n", addr, id)
	br := bufio.NewReader(c)
	c.SetReadDeadline(time.Now().Add(5 * time.Second))
	st, err := x1ReadHead(br)
	if err != nil || !strings.Contains(st, "200") {
		t.Fatalf("OUT channel not accepted: %q %v", st, err)
	}
	if _, err := io.ReadFull(br, make([]byte, 10)); err != nil {
		t.Fatal(err)
	}
	return c, br
}

// waits for one packet on the OUT channel
func x1Recv(c net.Conn, br *bufio.Reader, d time.Duration) (uint16, []byte, error) {
	c.SetReadDeadline(time.Now().Add(d))
	h := make([]byte, 8)
	if _, err := io.ReadFull(br, h); err != nil {
		return 0, nil, err
	}
	b := make([]byte, binary.LittleEndian.Uint32(h[4:])-8)
	_, err := io.ReadFull(br, b)
	return binary.LittleEndian.Uint16(h), b, err
}

var x1Handshake = x1Pkt(0x1, []byte{1, 0, 0, 0, 0, 0})

const x1InHead = "RDG_IN_DATA /remoteDesktopGateway/ HTTP/1.1\r\nHost: %s\r\nRdg-Connection-Id: %s\r\nTransfer-Encoding: chunked\r\n\r\n"

// writes is the list of socket writes the client performs after it has read
// the 200 answer of the IN channel; pause is slept between them
func x1Run(t *testing.T, id string, writes [][]byte, pause time.Duration) error {
	srv := x1Gateway()
	defer srv.Close()
	addr := srv.Listener.Addr().String()
	out, outR := x1Out(t, addr, id)
	defer out.Close()

	in, err := net.Dial("tcp", addr)
	if err != nil {
		t.Fatal(err)
	}
	defer in.Close()
	fmt.Fprintf(in, x1InHead, addr, id)
	inR := bufio.NewReader(in)
	in.SetReadDeadline(time.Now().Add(5 * time.Second))
	if st, err := x1ReadHead(inR); err != nil || !strings.Contains(st, "200") {
		t.Fatalf("IN channel not accepted: %q %v", st, err)
	}
	for _, w := range writes {
		if _, err := in.Write(w); err != nil {
			t.Fatal(err)
		}
		time.Sleep(pause)
	}
	pt, body, err := x1Recv(out, outR, 3*time.Second)
	if err != nil {
		return fmt.Errorf("no HANDSHAKE_RESPONSE within 3 s: %v", err)
	}
	if pt != 0x2 || binary.LittleEndian.Uint32(body) != 0 {
		return fmt.Errorf("unexpected answer type %#x body %x", pt, body)
	}
	return nil
}

// control: the drained bytes and the first chunk arrive in separate reads
func TestX1_Control_SeparateSegments(t *testing.T) {
	err := x1Run(t, "{11111111-0000-0000-0000-000000000001}",
		[][]byte{make([]byte, 100), x1Chunk(x1Handshake)}, 200*time.Millisecond)
	if err != nil {
		t.Fatalf("control failed: %v", err)
	}
}

// the same bytes in ONE socket write: the handshake request is thrown away
// together with the 100 bytes, the client never gets an answer
func TestX1_SameBytesOneSegment(t *testing.T) {
	one := append(make([]byte, 100), x1Chunk(x1Handshake)...)
	err := x1Run(t, "{11111111-0000-0000-0000-000000000002}", [][]byte{one}, 0)
	if err != nil {
		t.Fatalf("C08 violated: same client byte stream as the control, delivered in one TCP segment: %v", err)
	}
}

// the same bytes, the 100 bytes travel with the request headers (a client that
// does not wait for the 200 before it sends them, or a proxy that coalesces):
// they sit in the bufio reader, Drain() then swallows the handshake chunk from
// the socket and the chunked reader is fed the 100 bytes as a chunk header
func TestX1_DrainedBytesWithRequestHeaders(t *testing.T) {
	srv := x1Gateway()
	defer srv.Close()
	addr := srv.Listener.Addr().String()
	id := "{11111111-0000-0000-0000-000000000003}"
	out, outR := x1Out(t, addr, id)
	defer out.Close()

	in, err := net.Dial("tcp", addr)
	if err != nil {
		t.Fatal(err)
	}
	defer in.Close()
	head := append([]byte(fmt.Sprintf(x1InHead, addr, id)), make([]byte, 100)...)
	in.Write(head)
	inR := bufio.NewReader(in)
	in.SetReadDeadline(time.Now().Add(5 * time.Second))
	if st, err := x1ReadHead(inR); err != nil || !strings.Contains(st, "200") {
		t.Fatalf("IN channel not accepted: %q %v", st, err)
	}
	time.Sleep(200 * time.Millisecond)
	in.Write(x1Chunk(x1Handshake))
	pt, body, err := x1Recv(out, outR, 3*time.Second)
	if err != nil {
		t.Fatalf("C08 violated: same client byte stream as the control, first 100 bytes in the segment of the request headers: no HANDSHAKE_RESPONSE within 3 s: %v", err)
	}
	if pt != 0x2 || binary.LittleEndian.Uint32(body) != 0 {
		t.Fatalf("unexpected answer type %#x body %x", pt, body)
	}
}
