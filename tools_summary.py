#!/usr/bin/env python3
# Prints the DESIGN.md §I.0 table from the evidence files of the last run.
import json,os
props=[json.loads(l) for l in open('/verif/properties.jsonl')]
na=json.load(open('/verif/not_applicable.json'))
print("| id  | status | functions under contract | obligations (quick) | discharged | known findings | bounded cases |")
print("|-----|--------|--------------------------|---------------------|------------|----------------|---------------|")
for p in props:
    pid=p['id']
    f='/verif/evidence/%s.json'%pid
    if pid in na or not os.path.exists(f):
        print(f"| {pid} | **not applicable** | — | — | — | — | — |"); continue
    e=json.load(open(f)); c=e['coverage']
    b=sum(x['cases'] for x in (c.get('bounded_standins') or []))
    print(f"| {pid} | claimed | {len(c['functions_under_contract'])} | {c['obligations_generated']} | {c['discharged']} | {c['known_findings_hit']} | {b or ''} |")
