package conformance

import (
	"testing"

	"github.com/m7913d/go-ntlm/ntlm"
)

// Assumed in ntlm.spec: ProcessAuthenticateMessage is the cryptographic check — it succeeds for a
// response computed from the password given to SetUserInfo and fails for any other password.
func TestNtlmVerifierAssumption(t *testing.T) {
	run := func(serverPass, clientPass string) error {
		server, err := ntlm.CreateServerSession(ntlm.Version2, ntlm.ConnectionOrientedMode)
		if err != nil {
			t.Fatal(err)
		}
		server.SetRequireNtHash(true)
		client, err := ntlm.CreateClientSession(ntlm.Version2, ntlm.ConnectionOrientedMode)
		if err != nil {
			t.Fatal(err)
		}
		client.SetUserInfo("alice", clientPass, "")
		nm, err := client.GenerateNegotiateMessage()
		if err != nil {
			t.Fatal(err)
		}
		if err := server.ProcessNegotiateMessage(nm); err != nil {
			t.Fatal(err)
		}
		cm, err := server.GenerateChallengeMessage()
		if err != nil {
			t.Fatal(err)
		}
		cm2, err := ntlm.ParseChallengeMessage(cm.Bytes())
		if err != nil {
			t.Fatal(err)
		}
		if err := client.ProcessChallengeMessage(cm2); err != nil {
			t.Fatal(err)
		}
		am, err := client.GenerateAuthenticateMessage()
		if err != nil {
			t.Fatal(err)
		}
		am2, err := ntlm.ParseAuthenticateMessage(am.Bytes(), 2)
		if err != nil {
			t.Fatal(err)
		}
		server.SetUserInfo(am2.UserName.String(), serverPass, "")
		return server.ProcessAuthenticateMessage(am2)
	}
	if err := run("secret", "secret"); err != nil {
		t.Fatalf("correct password rejected: %v", err)
	}
	for _, wrong := range []string{"", "Secret", "secret ", "secre", "x"} {
		if err := run("secret", wrong); err == nil {
			t.Fatalf("wrong password %q accepted", wrong)
		}
	}
}
