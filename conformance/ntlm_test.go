package conformance

import (
	"encoding/binary"
	"io"
	"log"
	"os"
	"testing"

	"github.com/m7913d/go-ntlm/ntlm"
)

// Assumed in ntlm.spec: ProcessAuthenticateMessage is the cryptographic check — it succeeds for a
// response computed from the password given to SetUserInfo and fails for any other password.
func TestNtlmVerifierAssumption(t *testing.T) {
	run := func(serverPass, clientPass string) error {
		server, err := ntlm.CreateServerSession(ntlm.Version2, ntlm.ConnectionOrientedMode)
		if err != nil {
			t.Fatal(err)
		}
		server.SetRequireNtHash(true)
		client, err := ntlm.CreateClientSession(ntlm.Version2, ntlm.ConnectionOrientedMode)
		if err != nil {
			t.Fatal(err)
		}
		client.SetUserInfo("alice", clientPass, "")
		nm, err := client.GenerateNegotiateMessage()
		if err != nil {
			t.Fatal(err)
		}
		if err := server.ProcessNegotiateMessage(nm); err != nil {
			t.Fatal(err)
		}
		cm, err := server.GenerateChallengeMessage()
		if err != nil {
			t.Fatal(err)
		}
		cm2, err := ntlm.ParseChallengeMessage(cm.Bytes())
		if err != nil {
			t.Fatal(err)
		}
		if err := client.ProcessChallengeMessage(cm2); err != nil {
			t.Fatal(err)
		}
		am, err := client.GenerateAuthenticateMessage()
		if err != nil {
			t.Fatal(err)
		}
		am2, err := ntlm.ParseAuthenticateMessage(am.Bytes(), 2)
		if err != nil {
			t.Fatal(err)
		}
		server.SetUserInfo(am2.UserName.String(), serverPass, "")
		return server.ProcessAuthenticateMessage(am2)
	}
	if err := run("secret", "secret"); err != nil {
		t.Fatalf("correct password rejected: %v", err)
	}
	for _, wrong := range []string{"", "Secret", "secret ", "secre", "x"} {
		if err := run("secret", wrong); err == nil {
			t.Fatalf("wrong password %q accepted", wrong)
		}
	}
}

// ntlm.spec marks ParseNegotiateMessage, ParseAuthenticateMessage, (*PayloadStruct).String and
// ProcessAuthenticateMessage as `maypanic`. These witnesses (found by fuzzing the library) show that the
// marking is not vacuous pessimism; the test only logs, since a library that stopped panicking would
// make the assumption conservative, not wrong.
func TestNtlmLibraryPanicWitnesses(t *testing.T) {
	log.SetOutput(io.Discard)
	defer log.SetOutput(os.Stderr)
	try := func(name string, f func()) {
		defer func() {
			if p := recover(); p != nil {
				t.Logf("%s panics: %v", name, p)
			} else {
				t.Logf("%s did not panic on its witness", name)
			}
		}()
		f()
	}
	short := append([]byte("NTLMSSP\x00\x01\x00\x00\x00"), 0, 0, 0, 0, 1, 2, 3, 4) // 20 bytes, no flags
	try("ParseNegotiateMessage(20-byte type 1 message)", func() { ntlm.ParseNegotiateMessage(short) })
	wrap := make([]byte, 96)
	copy(wrap, "NTLMSSP\x00")
	binary.LittleEndian.PutUint32(wrap[8:], 3)
	binary.LittleEndian.PutUint16(wrap[12:], 0x20)
	binary.LittleEndian.PutUint32(wrap[16:], 0xFFFFFFF0) // offset+len wraps around 2^32
	try("ParseAuthenticateMessage(payload offset 0xFFFFFFF0)", func() { ntlm.ParseAuthenticateMessage(wrap, 2) })
	odd, _ := ntlm.CreateBytePayload([]byte{0x41, 0x00, 0x42})
	odd.Type = ntlm.UnicodeStringPayload
	try("(*PayloadStruct).String(odd-length UTF-16)", func() { _ = odd.String() })
}

// The assumption about ProcessAuthenticateMessage is restricted to the FIRST response a session
// checks (ghost map pamUsed in ntlm.spec). This witness shows why: the keys of the first user stay.
func TestNtlmSessionKeepsFirstUsersKeys(t *testing.T) {
	log.SetOutput(io.Discard)
	defer log.SetOutput(os.Stderr)
	server, _ := ntlm.CreateServerSession(ntlm.Version2, ntlm.ConnectionOrientedMode)
	server.SetRequireNtHash(true)
	client, _ := ntlm.CreateClientSession(ntlm.Version2, ntlm.ConnectionOrientedMode)
	client.SetUserInfo("alice", "alice-secret", "")
	nm, _ := client.GenerateNegotiateMessage()
	server.ProcessNegotiateMessage(nm)
	cm, _ := server.GenerateChallengeMessage()
	cm2, _ := ntlm.ParseChallengeMessage(cm.Bytes())
	client.ProcessChallengeMessage(cm2)
	am, _ := client.GenerateAuthenticateMessage()
	good, _ := ntlm.ParseAuthenticateMessage(am.Bytes(), 2)
	spoiled := append([]byte{}, am.Bytes()...)
	spoiled[int(am.NtChallengeResponseFields.Offset)] ^= 0xff
	bad, _ := ntlm.ParseAuthenticateMessage(spoiled, 2)
	server.SetUserInfo("alice", "alice-secret", "")
	if err := server.ProcessAuthenticateMessage(bad); err == nil {
		t.Fatal("spoiled response accepted")
	}
	server.SetUserInfo("bobby", "bobby-secret", "")
	if err := server.ProcessAuthenticateMessage(good); err == nil {
		t.Log("second response on the session was checked against the first user's password: accepted although SetUserInfo named bobby")
	} else {
		t.Log("second response refused (library no longer keeps the first user's keys)")
	}
}
