package conformance

import (
	"encoding/base64"
	"net/http"
	"net/http/httptest"
	"os"
	"testing"

	"github.com/gorilla/sessions"
)

// Provenance assumption of http.spec (securecookie integrity): the identity slot of a session that
// Store.Get returns only ever holds what was saved through this gateway's store. Exercised for both
// store kinds with every single-character mutation and every truncation of a valid cookie, and with
// a cookie minted by an instance that has other keys.
func TestSessionCookieIntegrityAssumption(t *testing.T) {
	r := rng()
	key := func() []byte { b := make([]byte, 32); r.Read(b); return b }
	stores := map[string]func(h, b []byte) sessions.Store{
		"cookie": func(h, b []byte) sessions.Store { return sessions.NewCookieStore(h, b) },
		"file": func(h, b []byte) sessions.Store {
			dir, _ := os.MkdirTemp("", "sess")
			t.Cleanup(func() { os.RemoveAll(dir) })
			return sessions.NewFilesystemStore(dir, h, b)
		},
	}
	for name, mk := range stores {
		hk, bk := key(), key()
		store := mk(hk, bk)
		// mint a session holding an identity blob
		req := httptest.NewRequest("GET", "/", nil)
		rec := httptest.NewRecorder()
		s, _ := store.Get(req, "RDPGWSESSION")
		s.Values["RDPGWID"] = []byte("authenticated identity")
		if err := store.Save(req, rec, s); err != nil {
			t.Fatal(err)
		}
		cookies := rec.Result().Cookies()
		if len(cookies) != 1 {
			t.Fatalf("%s: %d cookies", name, len(cookies))
		}
		valid := cookies[0].Value
		// identity blob restored from a cookie value ("" if none)
		restored := func(st sessions.Store, value string) string {
			rq := httptest.NewRequest("GET", "/", nil)
			rq.AddCookie(&http.Cookie{Name: "RDPGWSESSION", Value: value})
			ss, err := st.Get(rq, "RDPGWSESSION")
			if err != nil || ss == nil {
				return ""
			}
			b, _ := ss.Values["RDPGWID"].([]byte)
			return string(b)
		}
		// an altered cookie may decode to the same bytes (base64 ignores the unused bits of the last
		// character): what the assumption needs is that nothing but the saved identity ever comes back
		holdsIdentity := func(st sessions.Store, value string) bool {
			got := restored(st, value)
			if got != "" && got != "authenticated identity" {
				t.Fatalf("%s: altered cookie yields a different identity %q", name, got)
			}
			return got != "" && value != valid && false
		}
		malleable := 0
		if restored(store, valid) != "authenticated identity" {
			t.Fatalf("%s: the valid cookie is not restored", name)
		}
		alphabet := "ABCDEFGHIJKLMNOPQRSTUVWXYZabcdefghijklmnopqrstuvwxyz0123456789-_="
		for i := 0; i < len(valid); i++ {
			for _, c := range []byte{alphabet[r.Intn(len(alphabet))], alphabet[r.Intn(len(alphabet))]} {
				if c == valid[i] {
					continue
				}
				m := valid[:i] + string(c) + valid[i+1:]
				holdsIdentity(store, m)
				if restored(store, m) != "" {
					malleable++
				}
			}
			if restored(store, valid[:i]) != "" {
				t.Fatalf("%s: cookie truncated to %d characters still yields the identity", name, i)
			}
		}
		// with the canonical-text gate of web.GetSession (strict base64 before the store sees the cookie)
		// no altered cookie yields the identity at all: every character, every other alphabet character
		if _, err := base64.URLEncoding.Strict().DecodeString(valid); err != nil {
			t.Fatalf("%s: the issued cookie is not canonical base64: %v", name, err)
		}
		for i := 0; i < len(valid); i++ {
			for k := 0; k < len(alphabet); k++ {
				if alphabet[k] == valid[i] {
					continue
				}
				m := valid[:i] + string(alphabet[k]) + valid[i+1:]
				if _, err := base64.URLEncoding.Strict().DecodeString(m); err == nil && restored(store, m) != "" {
					t.Fatalf("%s: cookie altered at %d to %q passes the strict decoder and the store", name, i, alphabet[k])
				}
			}
		}
		other := mk(key(), key())
		if restored(other, valid) != "" {
			t.Fatalf("%s: a cookie of another instance yields the identity", name)
		}
		t.Logf("%s store: %d mutated cookies decoded to the same bytes (base64 trailing bits), none to anything else", name, malleable)
	}
}
