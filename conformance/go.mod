module conformance

go 1.22

require (
	github.com/bolkedebruin/gokrb5/v8 v8.5.0
	github.com/go-jose/go-jose/v4 v4.0.5
	github.com/gorilla/sessions v1.2.2
	github.com/jcmturner/gofork v1.7.6
	github.com/m7913d/go-ntlm v0.0.1
	github.com/patrickmn/go-cache v2.1.0+incompatible
)

require golang.org/x/crypto v0.32.0 // indirect

require (
	github.com/gorilla/securecookie v1.1.2 // indirect
	github.com/jcmturner/dnsutils/v2 v2.0.0 // indirect
)

require github.com/bolkedebruin/rdpgw v0.0.0

replace github.com/bolkedebruin/rdpgw => /repo
