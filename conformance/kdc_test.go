package conformance

import (
	"bytes"
	"testing"

	"github.com/bolkedebruin/rdpgw/cmd/rdpgw/kdcproxy"
	"github.com/jcmturner/gofork/encoding/asn1"
)

func der(tag byte, content []byte) []byte {
	n := len(content)
	switch {
	case n < 128:
		return append([]byte{tag, byte(n)}, content...)
	case n < 256:
		return append([]byte{tag, 0x81, byte(n)}, content...)
	case n < 65536:
		return append([]byte{tag, 0x82, byte(n >> 8), byte(n)}, content...)
	}
	return append([]byte{tag, 0x83, byte(n >> 16), byte(n >> 8), byte(n)}, content...)
}

// Assumed behind kdcproxy.decode/ensures.wire: with the struct tags pinned there, the asn1 codec reads
// a KDC-PROXY-MESSAGE as MS-KKDCP 2.2.2 defines it (explicit tags, target-domain [1] GeneralString,
// dclocator-hint [2] INTEGER) into Message/Realm/Flags with nothing left over, and writes a reply as
// SEQUENCE { [0] OCTET STRING }.
func TestKdcProxyMessageWireFormat(t *testing.T) {
	r := rng()
	for i := 0; i < 300; i++ {
		msg := make([]byte, r.Intn(70000))
		r.Read(msg)
		realm := []string{"", "B.TEST", "EXAMPLE.COM", "a"}[r.Intn(4)]
		withHint := r.Intn(2) == 0
		body := der(0xa0, der(0x04, msg))
		if realm != "" {
			body = append(body, der(0xa1, der(0x1b, []byte(realm)))...)
		}
		if withHint {
			body = append(body, der(0xa2, der(0x02, []byte{0x05}))...)
		}
		enc := der(0x30, body)
		var m kdcproxy.KdcProxyMsg
		rest, err := asn1.Unmarshal(enc, &m)
		if err != nil || len(rest) != 0 {
			t.Fatalf("standard encoding (realm %q, hint %v) not read: rest %d err %v", realm, withHint, len(rest), err)
		}
		if !bytes.Equal(m.Message, msg) || m.Realm != realm || (withHint && m.Flags != 5) {
			t.Fatalf("standard encoding (realm %q, hint %v, %d bytes) read as realm %q flags %d, message equal: %v", realm, withHint, len(msg), m.Realm, m.Flags, bytes.Equal(m.Message, msg))
		}
		out, err := asn1.Marshal(kdcproxy.KdcProxyMsg{Message: msg})
		if err != nil || !bytes.Equal(out, der(0x30, der(0xa0, der(0x04, msg)))) {
			t.Fatalf("reply of %d bytes not wrapped as SEQUENCE { [0] OCTET STRING }: err %v", len(msg), err)
		}
	}
}
