package conformance

import (
	"testing"
	"time"

	"github.com/go-jose/go-jose/v4"
	"github.com/go-jose/go-jose/v4/jwt"
)

// Assumed in jose.spec: an HS256 signer over a []byte key cannot fail; Claims(key, ...) succeeds only
// under the signing key and for the untampered serialization; Validate rejects expired tokens (beyond
// the library's 1 minute leeway), tokens not yet valid, and a different issuer; on success with a
// non-empty expected issuer the claims carry that issuer.
func TestJoseAssumptions(t *testing.T) {
	r := rng()
	for i := 0; i < 200; i++ {
		key := make([]byte, 32+r.Intn(33))
		r.Read(key)
		sig, err := jose.NewSigner(jose.SigningKey{Algorithm: jose.HS256, Key: key}, (&jose.SignerOptions{}).WithType("JWT"))
		if err != nil {
			t.Fatalf("NewSigner(HS256, %d byte key) failed: %v", len(key), err)
		}
		now := time.Unix(1700000000+int64(r.Intn(1000000)), 0)
		life := time.Duration(1+r.Intn(600)) * time.Second
		std := jwt.Claims{Issuer: "iss-A", Subject: "s", IssuedAt: jwt.NewNumericDate(now), NotBefore: jwt.NewNumericDate(now), Expiry: jwt.NewNumericDate(now.Add(life))}
		tok, err := jwt.Signed(sig).Claims(std).Serialize()
		if err != nil {
			t.Fatal(err)
		}
		parsed, err := jwt.ParseSigned(tok, []jose.SignatureAlgorithm{jose.HS256})
		if err != nil {
			t.Fatal(err)
		}
		var out jwt.Claims
		if err := parsed.Claims(key, &out); err != nil {
			t.Fatalf("Claims under the signing key failed: %v", err)
		}
		other := append([]byte{}, key...)
		other[r.Intn(len(other))] ^= byte(1 + r.Intn(255))
		if err := parsed.Claims(other, &out); err == nil {
			t.Fatal("Claims succeeded under a different key")
		}
		// tampered payload
		bs := []byte(tok)
		mid := len(bs) / 2
		if bs[mid] == 'A' {
			bs[mid] = 'B'
		} else {
			bs[mid] = 'A'
		}
		if p2, err := jwt.ParseSigned(string(bs), []jose.SignatureAlgorithm{jose.HS256}); err == nil {
			var o2 jwt.Claims
			if p2.Claims(key, &o2) == nil && string(bs) != tok {
				t.Fatal("tampered token verified")
			}
		}
		// wrong algorithm list refuses the token
		if _, err := jwt.ParseSigned(tok, []jose.SignatureAlgorithm{jose.HS512}); err == nil {
			t.Fatal("ParseSigned accepted a token of an algorithm that was not allowed")
		}
		// validation
		if err := out.Validate(jwt.Expected{Issuer: "iss-A", Time: now.Add(life / 2)}); err != nil {
			t.Fatalf("valid token rejected: %v", err)
		}
		if err := out.Validate(jwt.Expected{Issuer: "iss-A", Time: now.Add(life + jwt.DefaultLeeway + time.Second)}); err == nil {
			t.Fatal("expired token accepted")
		}
		if err := out.Validate(jwt.Expected{Issuer: "iss-A", Time: now.Add(-jwt.DefaultLeeway - time.Second)}); err == nil {
			t.Fatal("token accepted before NotBefore")
		}
		if err := out.Validate(jwt.Expected{Issuer: "iss-B", Time: now.Add(life / 2)}); err == nil {
			t.Fatal("wrong issuer accepted")
		}
	}
}

// Observation recorded with the C18 known finding: go-jose v4 creates an HS256 signer over a key
// shorter than 32 bytes without error (the assumption in jose.spec) but refuses to sign with it.
func TestJoseShortKeyFailsLate(t *testing.T) {
	for n := 0; n < 32; n++ {
		sig, err := jose.NewSigner(jose.SigningKey{Algorithm: jose.HS256, Key: make([]byte, n)}, nil)
		if err != nil {
			t.Fatalf("NewSigner(HS256, %d byte key) failed: %v", n, err)
		}
		if _, err := jwt.Signed(sig).Claims(jwt.Claims{Subject: "x"}).Serialize(); err == nil {
			t.Fatalf("a %d byte HS256 key signed a token", n)
		}
	}
}

// user tokens: dir + A128CBC-HS256 decrypts only under the encryption key
func TestJoseEncryptedAssumptions(t *testing.T) {
	r := rng()
	for i := 0; i < 50; i++ {
		key := make([]byte, 32)
		r.Read(key)
		enc, err := jose.NewEncrypter(jose.A128CBC_HS256, jose.Recipient{Algorithm: jose.DIRECT, Key: key}, (&jose.EncrypterOptions{Compression: jose.DEFLATE}).WithContentType("JWT"))
		if err != nil {
			t.Fatal(err)
		}
		tok, err := jwt.Encrypted(enc).Claims(jwt.Claims{Subject: "u"}).Serialize()
		if err != nil {
			t.Fatal(err)
		}
		p, err := jwt.ParseEncrypted(tok, []jose.KeyAlgorithm{jose.DIRECT}, []jose.ContentEncryption{jose.A128CBC_HS256})
		if err != nil {
			t.Fatal(err)
		}
		var out jwt.Claims
		if err := p.Claims(key, &out); err != nil || out.Subject != "u" {
			t.Fatalf("decrypt under the key failed: %v", err)
		}
		other := append([]byte{}, key...)
		other[r.Intn(32)] ^= 0x40
		if err := p.Claims(other, &out); err == nil {
			t.Fatal("decrypted under a different key")
		}
	}
}

// Assumed in jose.spec: Validate accepts a token up to jwt.DefaultLeeway (one minute) after exp,
// ValidateWithLeeway(e, 0) refuses every token whose exp lies before e.Time.
func TestJoseLeewayModel(t *testing.T) {
	if jwt.DefaultLeeway != time.Minute {
		t.Fatalf("jwt.DefaultLeeway = %v, the model says one minute", jwt.DefaultLeeway)
	}
	r := rng()
	for i := 0; i < 2000; i++ {
		now := time.Unix(1700000000+int64(r.Intn(1000000)), 0)
		ago := time.Duration(1+r.Intn(200)) * time.Second
		c := jwt.Claims{Issuer: "rdpgw", Expiry: jwt.NewNumericDate(now.Add(-ago))}
		e := jwt.Expected{Issuer: "rdpgw", Time: now}
		if err := c.ValidateWithLeeway(e, 0); err == nil {
			t.Fatalf("ValidateWithLeeway(0) accepted a token that expired %v ago", ago)
		}
		if err := c.Validate(e); (err == nil) != (ago <= time.Minute) {
			t.Fatalf("Validate on a token expired %v ago: %v", ago, err)
		}
		live := jwt.Claims{Issuer: "rdpgw", Expiry: jwt.NewNumericDate(now.Add(ago))}
		if err := live.ValidateWithLeeway(e, 0); err != nil {
			t.Fatalf("ValidateWithLeeway(0) refused a token valid for another %v: %v", ago, err)
		}
	}
}
