// Conformance tests for the assumed (not proved) contracts and native models
// that gocv uses for library functions. They exercise the REAL libraries with
// random inputs seeded by VERIF_SEED and compare against the model's statement.
// Result: "tested, not proved" — reported separately in the evidence.
package conformance

import (
	"bufio"
	"bytes"
	"encoding/gob"
	"encoding/binary"
	"io"
	"math/rand"
	"net/http/httputil"
	"os"
	"strconv"
	"strings"
	"testing"
	"unicode/utf16"
	"unicode/utf8"

	krbconfig "github.com/bolkedebruin/gokrb5/v8/config"
	"github.com/patrickmn/go-cache"
)

func rng() *rand.Rand {
	seed, _ := strconv.ParseInt(os.Getenv("VERIF_SEED"), 10, 64)
	return rand.New(rand.NewSource(seed + 1))
}

// model of encoding/binary.Read(*bytes.Reader, LittleEndian, *uintN):
// rem >= N/8: err == nil, value = little endian of the next bytes, pos += N/8
// rem == 0 or rem < N/8: err != nil, value unchanged, everything left is consumed
func TestBinaryReadModel(t *testing.T) {
	r := rng()
	for i := 0; i < 20000; i++ {
		n := r.Intn(12)
		data := make([]byte, n)
		r.Read(data)
		pos := 0
		if n > 0 {
			pos = r.Intn(n + 1)
		}
		rd := bytes.NewReader(data)
		rd.Seek(int64(pos), io.SeekStart)
		switch r.Intn(3) {
		case 0:
			v := uint16(0xBEEF)
			err := binary.Read(rd, binary.LittleEndian, &v)
			rem := n - pos
			if rem >= 2 {
				if err != nil || v != uint16(data[pos])|uint16(data[pos+1])<<8 || rd.Len() != rem-2 {
					t.Fatalf("u16 ok case: %v %x", err, v)
				}
			} else if err == nil || v != 0xBEEF || rd.Len() != 0 {
				t.Fatalf("u16 short case: err=%v v=%x len=%d", err, v, rd.Len())
			}
		case 1:
			v := uint32(0xDEADBEEF)
			err := binary.Read(rd, binary.LittleEndian, &v)
			rem := n - pos
			if rem >= 4 {
				want := uint32(data[pos]) | uint32(data[pos+1])<<8 | uint32(data[pos+2])<<16 | uint32(data[pos+3])<<24
				if err != nil || v != want || rd.Len() != rem-4 {
					t.Fatalf("u32 ok case")
				}
			} else if err == nil || v != 0xDEADBEEF || rd.Len() != 0 {
				t.Fatalf("u32 short case: err=%v v=%x len=%d", err, v, rd.Len())
			}
		case 2:
			// into *[]byte of length k: success iff rem >= k, then filled; otherwise unchanged
			k := r.Intn(10)
			buf := make([]byte, k)
			for j := range buf {
				buf[j] = 0x55
			}
			err := binary.Read(rd, binary.LittleEndian, &buf)
			rem := n - pos
			if rem >= k {
				if err != nil || !bytes.Equal(buf, data[pos:pos+k]) {
					t.Fatalf("slice ok case: %v", err)
				}
			} else {
				if err == nil {
					t.Fatalf("slice short case: no error")
				}
				for j := range buf {
					if buf[j] != 0x55 {
						t.Fatalf("slice short case: target modified at %d (rem=%d k=%d)", j, rem, k)
					}
				}
			}
		}
	}
}

// model of binary.Write / bytes.Buffer: appends the little-endian bytes; Bytes() is the content; Reset empties.
func TestBinaryWriteBufferModel(t *testing.T) {
	r := rng()
	for i := 0; i < 5000; i++ {
		var b bytes.Buffer
		var want []byte
		for k := 0; k < r.Intn(6); k++ {
			switch r.Intn(3) {
			case 0:
				v := uint16(r.Uint32())
				binary.Write(&b, binary.LittleEndian, v)
				want = append(want, byte(v), byte(v>>8))
			case 1:
				v := r.Uint32()
				binary.Write(&b, binary.LittleEndian, v)
				want = append(want, byte(v), byte(v>>8), byte(v>>16), byte(v>>24))
			case 2:
				d := make([]byte, r.Intn(9))
				r.Read(d)
				n, err := b.Write(d)
				if n != len(d) || err != nil {
					t.Fatal("Buffer.Write result")
				}
				want = append(want, d...)
			}
		}
		if !bytes.Equal(b.Bytes(), want) || b.Len() != len(want) {
			t.Fatalf("buffer content")
		}
		b.Reset()
		if b.Len() != 0 {
			t.Fatal("reset")
		}
	}
}

// copy/append models: copy returns min(len), copies that prefix; append keeps old elements, adds new ones.
func TestCopyAppendModel(t *testing.T) {
	r := rng()
	for i := 0; i < 5000; i++ {
		a := make([]byte, r.Intn(8), 8+r.Intn(8))
		b := make([]byte, r.Intn(12))
		r.Read(a)
		r.Read(b)
		a0 := append([]byte{}, a...)
		c := append(a[:len(a):cap(a)], b...)
		if len(c) != len(a0)+len(b) || !bytes.Equal(c[:len(a0)], a0) || !bytes.Equal(c[len(a0):], b) {
			t.Fatal("append")
		}
		d := make([]byte, r.Intn(10))
		n := copy(d, b)
		m := len(d)
		if len(b) < m {
			m = len(b)
		}
		if n != m || !bytes.Equal(d[:n], b[:n]) {
			t.Fatal("copy")
		}
	}
}

// utf16.Decode of one unit yields exactly one rune; utf8.EncodeRune writes 1..4 bytes into a 4-byte buffer.
func TestUnicodeModel(t *testing.T) {
	for u := 0; u < 0x10000; u++ {
		rs := utf16.Decode([]uint16{uint16(u)})
		if len(rs) != 1 {
			t.Fatalf("utf16.Decode(%x) gave %d runes", u, len(rs))
		}
		buf := make([]byte, 4)
		n := utf8.EncodeRune(buf, rs[0])
		if n < 1 || n > 4 {
			t.Fatalf("EncodeRune wrote %d", n)
		}
	}
}

// strings facts used as assumptions: Split has >= 1 element, SplitN(n>0) between 1 and n, HasPrefix implies length.
func TestStringsModel(t *testing.T) {
	r := rng()
	alpha := "ab,@ "
	for i := 0; i < 20000; i++ {
		var sb strings.Builder
		for k := 0; k < r.Intn(10); k++ {
			sb.WriteByte(alpha[r.Intn(len(alpha))])
		}
		s := sb.String()
		if len(strings.Split(s, ",")) < 1 {
			t.Fatal("Split")
		}
		// assumed contract of strings.Split: the first element is what strings.Cut returns before the separator
		if before, _, _ := strings.Cut(s, ","); strings.Split(s, ",")[0] != before {
			t.Fatal("Split first element != Cut before")
		}
		n := 1 + r.Intn(3)
		if p := strings.SplitN(s, "@", n); len(p) < 1 || len(p) > n {
			t.Fatal("SplitN")
		}
		pre := alpha[:r.Intn(3)]
		if strings.HasPrefix(s, pre) && len(s) < len(pre) {
			t.Fatal("HasPrefix")
		}
	}
}

// go-cache model: Get after Set returns the stored value (before expiry); Delete removes; fresh cache is empty.
func TestGoCacheModel(t *testing.T) {
	c := cache.New(cache.NoExpiration, 0)
	if _, ok := c.Get("x"); ok {
		t.Fatal("fresh cache not empty")
	}
	c.Set("x", 1, cache.DefaultExpiration)
	c.Set("y", "v", cache.DefaultExpiration)
	if v, ok := c.Get("x"); !ok || v.(int) != 1 {
		t.Fatal("get after set")
	}
	c.Delete("x")
	if _, ok := c.Get("x"); ok {
		t.Fatal("get after delete")
	}
	if v, ok := c.Get("y"); !ok || v.(string) != "v" {
		t.Fatal("other key disturbed")
	}
}

// gokrb5 GetKDCs: keys are exactly 1..count.
func TestGetKDCsKeys(t *testing.T) {
	for n := 1; n <= 3; n++ {
		var sb strings.Builder
		sb.WriteString("[libdefaults]\n default_realm = EXAMPLE.COM\n dns_lookup_kdc = false\n[realms]\n EXAMPLE.COM = {\n")
		for k := 0; k < n; k++ {
			sb.WriteString("  kdc = 127.0.0.1:" + strconv.Itoa(8800+k) + "\n")
		}
		sb.WriteString(" }\n")
		cfg, err := krbconfig.NewFromString(sb.String())
		if err != nil {
			t.Fatal(err)
		}
		for _, tcp := range []bool{false, true} {
			count, kdcs, err := cfg.GetKDCs("EXAMPLE.COM", tcp)
			if err != nil || count != n || len(kdcs) != n {
				t.Fatalf("GetKDCs: %v %d %d", err, count, len(kdcs))
			}
			for k := 1; k <= n; k++ {
				if _, ok := kdcs[k]; !ok {
					t.Fatalf("key %d missing in %v", k, kdcs)
				}
			}
		}
	}
}

// http.spec assumes that gob restores an empty, non-nil attribute map as a non-nil map (the
// identity of a fresh session has no attributes yet; SetAttribute would panic on a nil map).
func TestGobKeepsEmptyMapsNonNil(t *testing.T) {
	type rec struct {
		Name       string
		Attributes map[string]interface{}
		Groups     map[string]bool
	}
	var b bytes.Buffer
	if err := gob.NewEncoder(&b).Encode(rec{Attributes: map[string]interface{}{}, Groups: map[string]bool{}}); err != nil {
		t.Fatal(err)
	}
	var out rec
	if err := gob.NewDecoder(&b).Decode(&out); err != nil {
		t.Fatal(err)
	}
	if out.Attributes == nil || out.Groups == nil {
		t.Fatalf("empty maps came back nil: %v %v", out.Attributes == nil, out.Groups == nil)
	}
}

// Assumed by the fix in LegacyPKT.ReadPacket (data first, error on the next call): the chunked
// reader reports the end of the body again on every later read.
func TestChunkedReaderErrorIsSticky(t *testing.T) {
	for _, body := range []string{"5\r\nhello\r\n0\r\n\r\n", "5\r\nhello\r\n0\r\n", "5\r\nhel", "zz\r\n"} {
		cr := httputil.NewChunkedReader(bufio.NewReader(strings.NewReader(body)))
		buf := make([]byte, 4096)
		var err error
		for i := 0; i < 10 && err == nil; i++ {
			_, err = cr.Read(buf)
		}
		if err == nil {
			t.Fatalf("body %q: no error after 10 reads", body)
		}
		for i := 0; i < 3; i++ {
			n, err2 := cr.Read(buf)
			if n != 0 || err2 == nil {
				t.Fatalf("body %q: read after error %v returned (%d, %v)", body, err, n, err2)
			}
		}
	}
}
