#!/usr/bin/env python3
# Regenerates MANIFEST.json from the table below (kept next to DESIGN.md §0).
import json, subprocess
props=[json.loads(l) for l in open('/verif/properties.jsonl')]
claimed = json.load(open('/verif/claims.json'))
hooks = subprocess.run(['git','-C','/repo','log','--format=%H','--grep=^verif hook'],capture_output=True,text=True).stdout.split()
m={"version":1,
 "setup_cmd":"cd /verif/gocv && GOFLAGS=-mod=mod GOPROXY=off GOSUMDB=off GOTOOLCHAIN=local go build -o /verif/bin/gocv .",
 "hooks":{"guard":"verif","enable":"contracts are comment-only files contracts_verif.go behind //go:build verif; gocv loads /repo with -tags=verif; the compiled gateway is identical with the tag on or off","baseline_off_cmd":"cd /repo && GOFLAGS=-mod=mod GOPROXY=off GOSUMDB=off go test -json -vet=off -count=1 -timeout 25m ./...","source_commits":hooks,"add_only":True},
 "engines":[{"name":"gocv","path":"/verif/gocv","serves_properties":sorted(claimed.keys()),"kind_free_text":"contract-based deductive verifier for Go written for this task: go/ssa symbolic execution with state merging, loops cut at invariants, calls replaced by contracts, ghost history state; verification conditions in SMT-LIB (bit-vectors, arrays, UF, quantifiers for byte copies) raced on z3 5.1.0, z3 4.8.12 and cvc5 1.0.3"}],
 "checks":[], "not_applicable":[]}
for p in props:
    pid=p['id']
    if pid in claimed:
        c=claimed[pid]
        m['checks'].append({"property_id":pid,
          "quick_cmd":f"bin/gocv check -p {pid} -tier quick",
          "thorough_cmd":f"bin/gocv check -p {pid} -tier thorough",
          "evidence_file":f"/verif/evidence/{pid}.json",
          "replay_cmd_template":"bin/gocv replay {path}",
          "engine":"gocv",
          "level_claimed":{"category":"proof","text":c['text'],"design_ref":c.get('design_ref','DESIGN.md §6 '+pid)},
          "level_note":c['note'],
          "technique":c.get('technique',"contract-based deductive verification: requires/ensures/loop invariants/ghost state on the real Go functions, VCs generated from go/ssa, discharged by z3/cvc5")})
    else:
        na=json.load(open('/verif/not_applicable.json'))
        m['not_applicable'].append({"property_id":pid,"reason":na.get(pid,"check not built yet (engine under construction); see DESIGN.md")})
json.dump(m,open('/verif/MANIFEST.json','w'),indent=1)
print(len(m['checks']),'checks',len(m['not_applicable']),'n/a')
