#!/usr/bin/env python3
"""run_all.py [quick|thorough] [ids...]: runs the registered commands of MANIFEST.json, 6 at a time, prints one line per property plus every alarm line"""
import json,subprocess,concurrent.futures as cf,time,sys
tier=sys.argv[1] if len(sys.argv)>1 else 'quick'
only=set(sys.argv[2:])
m=json.load(open('/verif/MANIFEST.json'))
checks=[c for c in m['checks'] if not only or c['property_id'] in only]
def run(c):
    t=time.time()
    cmd=c[tier+'_cmd']
    r=subprocess.run(cmd,shell=True,capture_output=True,text=True,cwd='/verif')
    return c['property_id'],r.returncode,time.time()-t,r.stdout+r.stderr
bad=0
with cf.ThreadPoolExecutor(6) as ex:
    for id,rc,dt,out in ex.map(run,checks):
        al=[l for l in out.splitlines() if any(k in l for k in ('VIOLATION','ENGINE-LIMIT','  obligation ','KNOWN-FINDING','VACUOUS','CANARY-MISSED','ASSUMPTION-BROKEN','LOCK'))]
        print(id,rc,'%.0fs'%dt, ('\n   '+'\n   '.join(al[:14])) if al else '')
        bad+= rc!=0
sys.exit(1 if bad else 0)
