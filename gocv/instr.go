package main

import (
	"fmt"
	"go/ast"
	"go/token"
	"go/types"
	"strings"

	"golang.org/x/tools/go/ssa"
)

// to64 converts an integer value to a 64-bit term following Go's conversion
// rules (sign extension for signed types).
func to64(v Val) string {
	w := bvWidth(scalarSort(v.T))
	if w == 0 {
		return v.L[0]
	}
	return bvResize(v.L[0], w, 64, !isUnsigned(v.T))
}

func nonNilTerm(v Val) string {
	if v.NonNil {
		return "true"
	}
	if isInteger(v.T) {
		return "true"
	}
	switch scalarSort(v.T) {
	case SRef:
		return not(eq(v.L[0], "#x00000000"))
	case SIface:
		return not(eq(v.L[0], "inil"))
	case SFn:
		return not(eq(v.L[0], "fnil"))
	}
	if isSlice(v.T) {
		return not(eq(v.L[0], "#x00000000"))
	}
	return "true"
}

func (x *Exec) execInstr(fr *Frame, st *State, instr ssa.Instruction) {
	switch t := instr.(type) {
	case *ssa.DebugRef:
		if id, ok := t.Expr.(*ast.Ident); ok {
			if obj := t.Object(); obj != nil && obj.Pkg() != nil && obj.Parent() == obj.Pkg().Scope() {
				break // package-level object: specs resolve it through the package scope
			}
			if v, isVar := t.Object().(*types.Var); isVar && v.IsField() {
				break // selector identifiers (x.f) are not local names
			}
			if v, have := fr.vals[t.X]; have {
				fr.namedDefs[id.Name] = append(fr.namedDefs[id.Name], namedDef{t.Block(), v, t.IsAddr})
			} else if _, isConst := t.X.(*ssa.Const); !isConst && !t.IsAddr {
				if _, isParam := t.X.(*ssa.Parameter); !isParam {
					_ = id
				}
			}
		}
	case *ssa.Alloc:
		fr.vals[t] = x.doAlloc(st, t.Type().Underlying().(*types.Pointer).Elem(), t.Type(), t.Comment)
		// a source variable that lives in memory (address taken or captured by a closure): specs
		// read it from its cell (the debug references of its reads are value snapshots)
		if x.isDeclaredLocal(fr.fn, t.Comment) {
			fr.namedDefs[t.Comment] = append(fr.namedDefs[t.Comment], namedDef{t.Block(), fr.vals[t], true})
		}
	case *ssa.FieldAddr:
		p := x.operand(fr, st, t.X)
		x.safetyOblige(fr, st, "nil", instr, "", nonNilTerm(p))
		stt := p.T.Underlying().(*types.Pointer).Elem().Underlying().(*types.Struct)
		fr.vals[t] = Val{T: t.Type(), L: p.L, PtrPrefix: p.ptrPrefixOr() + "." + stt.Field(t.Field).Name(), PtrIndex: p.PtrIndex, NonNil: true}
	case *ssa.Field:
		v := x.operand(fr, st, t.X)
		fr.vals[t] = v.field(t.Field)
	case *ssa.IndexAddr:
		fr.vals[t] = x.doIndexAddr(fr, st, t)
	case *ssa.Index:
		xv := x.operand(fr, st, t.X)
		_ = xv
		if isString(t.X.Type()) {
			idx := to64(x.operand(fr, st, t.Index))
			x.safetyOblige(fr, st, "bounds", instr, "", app("bvult", idx, app("slen", xv.L[0])))
			fr.vals[t] = Val{T: t.Type(), L: []string{app("sbyte", xv.L[0], idx)}}
		} else {
			fr.vals[t] = x.freshVal(st, "arrayidx", t.Type())
		}
	case *ssa.UnOp:
		fr.vals[t] = x.doUnOp(fr, st, t)
	case *ssa.BinOp:
		a, b := x.operand(fr, st, t.X), x.operand(fr, st, t.Y)
		fr.vals[t] = x.binop(fr, st, t.Op, a, b, t.Type(), instr)
	case *ssa.Store:
		p := x.operand(fr, st, t.Addr)
		v := x.operand(fr, st, t.Val)
		x.safetyOblige(fr, st, "nil", instr, "", nonNilTerm(p))
		x.storeVal(st, p, v)
		x.rememberStatic(fr, p, v)
	case *ssa.Slice:
		fr.vals[t] = x.doSlice(fr, st, t)
	case *ssa.Convert:
		fr.vals[t] = x.doConvert(fr, st, x.operand(fr, st, t.X), t.Type())
	case *ssa.ChangeType:
		v := x.operand(fr, st, t.X)
		v.T = t.Type()
		fr.vals[t] = v
	case *ssa.ChangeInterface:
		v := x.operand(fr, st, t.X)
		v.T = t.Type()
		fr.vals[t] = v
	case *ssa.MakeInterface:
		fr.vals[t] = x.makeIface(st, t.Type(), x.operand(fr, st, t.X))
	case *ssa.TypeAssert:
		fr.vals[t] = x.doTypeAssert(fr, st, t)
	case *ssa.Extract:
		tv := x.operand(fr, st, t.Tuple)
		fr.vals[t] = tv.tupleAt(t.Index)
		if ex, ok := fr.extras[t.Tuple]; ok && t.Index < len(ex) {
			e := ex[t.Index]
			v := fr.vals[t]
			v.PtrPrefix, v.PtrIndex, v.Dyn, v.Fn, v.Bind = e.PtrPrefix, e.PtrIndex, e.Dyn, e.Fn, e.Bind
			fr.vals[t] = v
		}
	case *ssa.MakeSlice:
		ln := to64(x.operand(fr, st, t.Len))
		cp := to64(x.operand(fr, st, t.Cap))
		x.safetyOblige(fr, st, "makeslice", instr, "", and(app("bvsge", ln, bvLit(0, 64)), app("bvsle", ln, cp), app("bvule", cp, "#x0000010000000000")))
		et := t.Type().Underlying().(*types.Slice).Elem()
		r := x.allocRef(st, "mk")
		x.zeroArray(st, "arr."+elemPrefix(et), et, r)
		fr.vals[t] = Val{T: t.Type(), L: []string{r, bvLit(0, 64), ln, cp}}
	case *ssa.MakeMap:
		r := x.allocRef(st, "map")
		x.initMap(st, t.Type(), r)
		fr.vals[t] = Val{T: t.Type(), L: []string{r}}
	case *ssa.MakeChan:
		r := x.allocRef(st, "chan")
		fr.vals[t] = Val{T: t.Type(), L: []string{r}}
		x.chanInit(st, r, to64(x.operand(fr, st, t.Size)))
	case *ssa.MakeClosure:
		fn := t.Fn.(*ssa.Function)
		var binds []Val
		for _, b := range t.Bindings {
			binds = append(binds, x.operand(fr, st, b))
		}
		c := x.smt.Fresh("closure."+fn.Name(), SFn)
		x.smt.Assert(not(eq(c, "fnil")))
		x.smt.Assert(eq(app("fcode", c), x.fnCode(fn)))
		for k, b := range binds {
			if k < 3 && len(b.L) == 1 && scalarSort(b.T) == SFn {
				x.smt.Assert(eq(app(fmt.Sprintf("fbindfn%d", k), c), b.L[0]))
			}
			if k < 3 && len(b.L) == 1 && isRefType(b.T) {
				x.smt.Assert(eq(app(fmt.Sprintf("fbindref%d", k), c), b.L[0]))
			}
		}
		fr.vals[t] = Val{T: t.Type(), L: []string{c}, Fn: fn, Bind: binds}
	case *ssa.Lookup:
		fr.vals[t] = x.doLookup(fr, st, t)
	case *ssa.MapUpdate:
		m := x.operand(fr, st, t.Map)
		k := x.operand(fr, st, t.Key)
		v := x.operand(fr, st, t.Value)
		x.safetyOblige(fr, st, "nilmap", instr, "", nonNilTerm(m))
		x.siteClausesNamed(fr, nil, st, "mapupdate", instr, []Val{m, k, v})
		x.mapStore(st, m, k, v)
	case *ssa.Range:
		fr.vals[t] = Val{T: t.Type(), L: []string{x.smt.Fresh("iter", SOpq)}}
		fr.rangeOf[t] = x.operand(fr, st, t.X)
	case *ssa.Next:
		fr.vals[t] = x.doNext(fr, st, t)
	case *ssa.Call:
		res, extras := x.doCall(fr, st, &t.Call, t, false)
		if t.Type() != nil {
			if tp, ok := t.Type().(*types.Tuple); ok {
				if tp.Len() == 0 {
					break
				}
				var ls []string
				for _, r := range res {
					ls = append(ls, r.L...)
				}
				fr.vals[t] = Val{T: tp, L: ls}
				fr.extras[t] = res
				_ = extras
			} else if len(res) == 1 {
				fr.vals[t] = res[0]
			} else {
				fr.vals[t] = x.freshVal(st, "callres", t.Type())
			}
		}
	case *ssa.Go:
		x.doCall(fr, st, &t.Call, t, true)
	case *ssa.Defer:
		d := deferred{guard: st.pc, call: &t.Call, instr: t}
		for _, a := range t.Call.Args {
			d.args = append(d.args, x.operand(fr, st, a))
		}
		d.fnval = x.operand(fr, st, t.Call.Value)
		fr.defers = append(fr.defers, d)
	case *ssa.RunDefers:
		for i := len(fr.defers) - 1; i >= 0; i-- {
			d := fr.defers[i]
			// run the deferred call only on paths that registered it
			run := st.clone()
			run.pc = x.smt.Name("pc", SBool, and(st.pc, d.guard))
			skip := st.clone()
			skip.pc = x.smt.Name("pc", SBool, and(st.pc, not(d.guard)))
			x.doCallVals(fr, run, d.call, d.instr, d.fnval, d.args, false)
			m := x.mergeStates([]*State{run, skip})
			*st = *m
		}
	case *ssa.Send:
		ch := x.operand(fr, st, t.Chan)
		x.chanSend(fr, st, ch, instr)
	case *ssa.Select:
		x.unsupported("%s: select statement", fr.fn.Name())
		fr.vals[t] = x.freshVal(st, "select", t.Type())
	case *ssa.SliceToArrayPointer:
		x.unsupported("%s: slice to array pointer", fr.fn.Name())
		fr.vals[t] = x.freshVal(st, "s2a", t.Type())
	case *ssa.MultiConvert:
		fr.vals[t] = x.freshVal(st, "mconv", t.Type())
	default:
		x.unsupported("%s: instruction %T", fr.fn.Name(), instr)
		if v, ok := instr.(ssa.Value); ok {
			fr.vals[v] = x.freshVal(st, "unsupp", v.Type())
		}
	}
}

// rememberStatic keeps Go-side knowledge (closures, interface payloads) about
// values stored into locals so that a later load can recover it.
func (x *Exec) rememberStatic(fr *Frame, p Val, v Val) {
	if v.Fn == nil && v.Dyn == nil && v.PtrPrefix == "" {
		return
	}
	key := p.ptrPrefixOr() + "@" + p.L[0] + "@" + p.PtrIndex
	x.static[key] = v
}

func (x *Exec) recallStatic(fr *Frame, p Val, v Val) Val {
	key := p.ptrPrefixOr() + "@" + p.L[0] + "@" + p.PtrIndex
	if s, ok := x.static[key]; ok && len(s.L) == len(v.L) {
		same := true
		for i := range s.L {
			if s.L[i] != v.L[i] {
				same = false
			}
		}
		if same {
			return s
		}
	}
	return v
}

func (x *Exec) zeroArray(st *State, prefix string, et types.Type, ref string) {
	for _, l := range leavesOf(et) {
		p := prefix + l.Path
		x.regHeap(p, l.Sort, SBV64)
		a := x.heapArr(st, p)
		c := x.smt.Fresh("H."+p, x.arraySort(p))
		x.smt.Assert(eq(c, store(a, ref, x.constArray(SBV64, l.Sort))))
		st.heap[p] = c
	}
}

// constArray returns an array whose every element is the zero value of sort.
// Uninterpreted element sorts cannot be used with (as const ...) in cvc5, so
// a named array with a quantified axiom is used for them.
func (x *Exec) constArray(idx, sort string) string {
	switch sort {
	case SIface, SStr, SFn, SOpq:
		name := "zeroarr." + sortTag(idx) + "." + sortTag(sort)
		if !x.smt.declared[name] {
			x.smt.Declare(name, "(Array "+idx+" "+sort+")")
			x.smt.Assert(fmt.Sprintf("(forall ((i %s)) (! (= (select %s i) %s) :pattern ((select %s i))))", idx, name, zeroLeaf(sort), name))
		}
		return name
	}
	return "((as const (Array " + idx + " " + sort + ")) " + zeroLeaf(sort) + ")"
}

func (x *Exec) doAlloc(st *State, et types.Type, pt types.Type, hint string) Val {
	r := x.allocRef(st, "new")
	if at, ok := et.Underlying().(*types.Array); ok {
		prefix := "arr." + elemPrefix(at.Elem())
		x.zeroArray(st, prefix, at.Elem(), r)
		return Val{T: pt, L: []string{r}, PtrPrefix: prefix, NonNil: true}
	}
	p := Val{T: pt, L: []string{r}, NonNil: true}
	x.storeVal(st, p, zeroVal(et))
	switch typePrefix(et) {
	case "bytes.Buffer":
		x.heapWrite(st, "bytes.Buffer.len", SBV64, r, "", bvLit(0, 64))
	}
	return p
}

func (x *Exec) doIndexAddr(fr *Frame, st *State, t *ssa.IndexAddr) Val {
	xv := x.operand(fr, st, t.X)
	idx := to64(x.operand(fr, st, t.Index))
	switch u := t.X.Type().Underlying().(type) {
	case *types.Slice:
		x.safetyOblige(fr, st, "bounds", t, "", and(app("bvsge", idx, bvLit(0, 64)), app("bvslt", idx, xv.sLen())))
		return Val{T: t.Type(), L: []string{xv.sRef()}, PtrPrefix: "arr." + elemPrefix(u.Elem()), PtrIndex: x.smt.Name("idx", SBV64, app("bvadd", xv.sOff(), idx)), NonNil: true}
	case *types.Pointer:
		at := u.Elem().Underlying().(*types.Array)
		x.safetyOblige(fr, st, "nil", t, "", nonNilTerm(xv))
		x.safetyOblige(fr, st, "bounds", t, "", and(app("bvsge", idx, bvLit(0, 64)), app("bvslt", idx, bvLit(uint64(at.Len()), 64))))
		return Val{T: t.Type(), L: []string{xv.L[0]}, PtrPrefix: "arr." + elemPrefix(at.Elem()), PtrIndex: idx, NonNil: true}
	}
	x.unsupported("IndexAddr on %v", t.X.Type())
	return x.freshVal(st, "idxaddr", t.Type())
}

func (x *Exec) doUnOp(fr *Frame, st *State, t *ssa.UnOp) Val {
	v := x.operand(fr, st, t.X)
	switch t.Op {
	case token.MUL:
		x.safetyOblige(fr, st, "nil", t, "", nonNilTerm(v))
		r := x.loadVal(st, v, t.Type())
		if g, ok := t.X.(*ssa.Global); ok && g.Pkg != nil && libraryNonNil[g.Pkg.Pkg.Path()+"."+g.Name()] && len(r.L) == 1 && isRefType(r.T) {
			// assumed (listed in the evidence): these standard library variables are set to a non-nil
			// pointer by their package and are not reassigned
			x.trusted["assumed:non-nil library variable "+g.Pkg.Pkg.Path()+"."+g.Name()] = true
			x.smt.Assert(not(eq(r.L[0], "#x00000000")))
		}
		return x.recallStatic(fr, v, r)
	case token.NOT:
		return Val{T: t.Type(), L: []string{not(v.L[0])}}
	case token.SUB:
		return Val{T: t.Type(), L: []string{app("bvneg", v.L[0])}}
	case token.XOR:
		return Val{T: t.Type(), L: []string{app("bvnot", v.L[0])}}
	case token.ARROW:
		return x.chanRecv(fr, st, v, t)
	}
	x.unsupported("unop %v", t.Op)
	return x.freshVal(st, "unop", t.Type())
}

func (x *Exec) binop(fr *Frame, st *State, op token.Token, a, b Val, rt types.Type, instr ssa.Instruction) Val {
	bres := func(t string) Val { return Val{T: rt, L: []string{t}} }
	at := a.T
	if at == nil {
		at = b.T
	}
	// comparison of non-integers
	switch {
	case isString(at):
		switch op {
		case token.EQL:
			return bres(x.strEq(a.L[0], b.L[0]))
		case token.NEQ:
			return bres(not(x.strEq(a.L[0], b.L[0])))
		case token.ADD:
			x.smt.DeclareFun("sconcat", []string{SStr, SStr}, SStr)
			r := app("sconcat", a.L[0], b.L[0])
			x.smt.Assert(eq(app("slen", r), app("bvadd", app("slen", a.L[0]), app("slen", b.L[0]))))
			return bres(r)
		default:
			x.smt.DeclareFun("sless", []string{SStr, SStr}, SBool)
			lt := func(p, q string) string { return app("sless", p, q) }
			switch op {
			case token.LSS:
				return bres(lt(a.L[0], b.L[0]))
			case token.GTR:
				return bres(lt(b.L[0], a.L[0]))
			case token.LEQ:
				return bres(not(lt(b.L[0], a.L[0])))
			case token.GEQ:
				return bres(not(lt(a.L[0], b.L[0])))
			}
		}
	case isBool(at):
		switch op {
		case token.EQL:
			return bres(eq(a.L[0], b.L[0]))
		case token.NEQ:
			return bres(not(eq(a.L[0], b.L[0])))
		case token.AND, token.LAND:
			return bres(and(a.L[0], b.L[0]))
		case token.OR, token.LOR:
			return bres(or(a.L[0], b.L[0]))
		}
	case isInteger(at):
		w := bvWidth(scalarSort(at))
		signed := !isUnsigned(at)
		p, q := a.L[0], b.L[0]
		cmp := func(s, u string) Val {
			if signed {
				return bres(app(s, p, q))
			}
			return bres(app(u, p, q))
		}
		switch op {
		case token.ADD:
			return bres(app("bvadd", p, q))
		case token.SUB:
			return bres(app("bvsub", p, q))
		case token.MUL:
			return bres(app("bvmul", p, q))
		case token.QUO, token.REM:
			if instr != nil {
				x.safetyOblige(fr, st, "div", instr, "", not(eq(q, bvLit(0, w))))
			}
			f := map[bool]map[token.Token]string{true: {token.QUO: "bvsdiv", token.REM: "bvsrem"}, false: {token.QUO: "bvudiv", token.REM: "bvurem"}}[signed][op]
			return bres(app(f, p, q))
		case token.AND:
			return bres(app("bvand", p, q))
		case token.OR:
			return bres(app("bvor", p, q))
		case token.XOR:
			return bres(app("bvxor", p, q))
		case token.AND_NOT:
			return bres(app("bvand", p, app("bvnot", q)))
		case token.SHL, token.SHR:
			wq := bvWidth(scalarSort(b.T))
			if wq == 0 {
				wq = w
			}
			// shift count: unsigned semantic, resize to w; counts >= w give 0 (or sign)
			var cnt string
			over := "false"
			if wq > w {
				over = app("bvuge", q, bvLit(uint64(w), wq))
				cnt = bvResize(q, wq, w, false)
			} else {
				cnt = bvResize(q, wq, w, false)
				over = app("bvuge", cnt, bvLit(uint64(w), w))
			}
			if op == token.SHL {
				return bres(ite(over, bvLit(0, w), app("bvshl", p, cnt)))
			}
			if signed {
				return bres(ite(over, app("bvashr", p, bvLit(uint64(w-1), w)), app("bvashr", p, cnt)))
			}
			return bres(ite(over, bvLit(0, w), app("bvlshr", p, cnt)))
		case token.EQL:
			return bres(eq(p, q))
		case token.NEQ:
			return bres(not(eq(p, q)))
		case token.LSS:
			return cmp("bvslt", "bvult")
		case token.LEQ:
			return cmp("bvsle", "bvule")
		case token.GTR:
			return cmp("bvsgt", "bvugt")
		case token.GEQ:
			return cmp("bvsge", "bvuge")
		}
	default:
		// pointers, interfaces, funcs, maps, chans, slices vs nil, structs
		if op == token.EQL || op == token.NEQ {
			var t string
			if isSlice(at) || (b.T != nil && isSlice(b.T)) {
				t = eq(a.L[0], b.L[0])
			} else if len(a.L) == len(b.L) {
				var es []string
				for i := range a.L {
					es = append(es, eq(a.L[i], b.L[i]))
				}
				t = and(es...)
			} else {
				t = x.smt.Fresh("cmp", SBool)
			}
			if op == token.NEQ {
				t = not(t)
			}
			return bres(t)
		}
	}
	if scalarSort(rt) != "" {
		x.warn("binop %v on %v modelled as opaque", op, at)
		return x.freshVal(st, "binop", rt)
	}
	x.unsupported("binop %v on %v", op, at)
	return x.freshVal(st, "binop", rt)
}

func (x *Exec) doSlice(fr *Frame, st *State, t *ssa.Slice) Val {
	xv := x.operand(fr, st, t.X)
	opt := func(v ssa.Value, def string) string {
		if v == nil {
			return def
		}
		return to64(x.operand(fr, st, v))
	}
	zero := bvLit(0, 64)
	switch u := t.X.Type().Underlying().(type) {
	case *types.Slice:
		lo := opt(t.Low, zero)
		hi := opt(t.High, xv.sLen())
		mx := opt(t.Max, xv.sCap())
		x.safetyOblige(fr, st, "bounds", t, "", and(app("bvsle", zero, lo), app("bvsle", lo, hi), app("bvsle", hi, mx), app("bvsle", mx, xv.sCap())))
		return Val{T: t.Type(), L: []string{xv.sRef(), x.smt.Name("off", SBV64, app("bvadd", xv.sOff(), lo)), x.smt.Name("len", SBV64, app("bvsub", hi, lo)), x.smt.Name("cap", SBV64, app("bvsub", mx, lo))}}
	case *types.Pointer:
		at := u.Elem().Underlying().(*types.Array)
		n := bvLit(uint64(at.Len()), 64)
		lo := opt(t.Low, zero)
		hi := opt(t.High, n)
		mx := opt(t.Max, n)
		x.safetyOblige(fr, st, "nil", t, "", nonNilTerm(xv))
		x.safetyOblige(fr, st, "bounds", t, "", and(app("bvsle", zero, lo), app("bvsle", lo, hi), app("bvsle", hi, mx), app("bvsle", mx, n)))
		return Val{T: t.Type(), L: []string{xv.L[0], lo, x.smt.Name("len", SBV64, foldSub64(hi, lo)), x.smt.Name("cap", SBV64, foldSub64(mx, lo))}}
	case *types.Basic: // string
		ln := app("slen", xv.L[0])
		lo := opt(t.Low, zero)
		hi := opt(t.High, ln)
		x.safetyOblige(fr, st, "bounds", t, "", and(app("bvsle", zero, lo), app("bvsle", lo, hi), app("bvsle", hi, ln)))
		return Val{T: t.Type(), L: []string{x.substr(xv.L[0], lo, hi)}}
	}
	x.unsupported("slice of %v", t.X.Type())
	return x.freshVal(st, "slice", t.Type())
}

func (x *Exec) substr(s, lo, hi string) string {
	x.smt.DeclareFun("ssub", []string{SStr, SBV64, SBV64}, SStr)
	r := app("ssub", s, lo, hi)
	x.smt.Assert(eq(app("slen", r), app("bvsub", hi, lo)))
	x.smt.Assert(implies(and(eq(lo, bvLit(0, 64)), eq(hi, app("slen", s))), eq(r, s)))
	return r
}

func (x *Exec) doConvert(fr *Frame, st *State, v Val, to types.Type) Val {
	from := v.T
	switch {
	case isInteger(from) && isInteger(to):
		wf, wt := bvWidth(scalarSort(from)), bvWidth(scalarSort(to))
		return Val{T: to, L: []string{bvResize(v.L[0], wf, wt, !isUnsigned(from))}}
	case isString(from) && isSlice(to):
		r := x.allocRef(st, "s2b")
		et := to.Underlying().(*types.Slice).Elem()
		if scalarSort(et) == SBV8 {
			p := "arr.bv8"
			x.regHeap(p, SBV8, SBV64)
			a := x.heapArr(st, p)
			c := x.smt.Fresh("H."+p, x.arraySort(p))
			x.smt.Assert(eq(c, store(a, r, app("sarr", v.L[0]))))
			st.heap[p] = c
			ln := app("slen", v.L[0])
			return Val{T: to, L: []string{r, bvLit(0, 64), ln, ln}}
		}
		ln := x.smt.Fresh("runelen", SBV64)
		x.smt.Assert(app("bvule", ln, app("slen", v.L[0])))
		return Val{T: to, L: []string{r, bvLit(0, 64), ln, ln}}
	case isSlice(from) && isString(to):
		s := x.smt.Fresh("b2s", SStr)
		et := from.Underlying().(*types.Slice).Elem()
		if scalarSort(et) == SBV8 {
			x.smt.Assert(eq(app("slen", s), v.sLen()))
			if v.sOff() == bvLit(0, 64) {
				x.regHeap("arr.bv8", SBV8, SBV64)
				x.smt.Assert(eq(app("sarr", s), sel(x.heapArr(st, "arr.bv8"), v.sRef())))
			}
		}
		return Val{T: to, L: []string{s}}
	case isInteger(from) && isString(to):
		s := x.smt.Fresh("r2s", SStr)
		x.smt.Assert(and(app("bvuge", app("slen", s), bvLit(1, 64)), app("bvule", app("slen", s), bvLit(4, 64))))
		return Val{T: to, L: []string{s}}
	}
	if len(leavesOf(from)) == len(leavesOf(to)) && scalarSort(from) == scalarSort(to) {
		r := v
		r.T = to
		return r
	}
	return x.freshVal(st, "conv", to)
}

func (x *Exec) doTypeAssert(fr *Frame, st *State, t *ssa.TypeAssert) Val {
	v := x.operand(fr, st, t.X)
	var okT string
	var payload Val
	if isInterface(t.AssertedType) {
		// conversion to another interface: succeeds iff dynamic type implements it
		if v.Dyn != nil {
			if types.Implements(v.Dyn.T, t.AssertedType.Underlying().(*types.Interface)) {
				okT = "true"
			} else {
				okT = "false"
			}
		} else if impl := x.prog.singleImpl(t.AssertedType); impl != nil {
			x.trusted["devirtualized:"+qualifiedTypeName(t.AssertedType)+"="+types.TypeString(impl, nil)] = true
			okT = and(not(eq(v.L[0], "inil")), eq(app("ityp", v.L[0]), x.typeID(impl)))
		} else {
			x.smt.DeclareFun("implements", []string{bvSort(16), bvSort(16)}, SBool)
			okT = and(not(eq(v.L[0], "inil")), app("implements", app("ityp", v.L[0]), x.typeID(t.AssertedType)))
		}
		payload = v
		payload.T = t.AssertedType
	} else {
		if v.Dyn != nil {
			if types.Identical(v.Dyn.T, t.AssertedType) {
				okT = "true"
			} else {
				okT = "false"
			}
		} else {
			okT = eq(app("ityp", v.L[0]), x.typeID(t.AssertedType))
		}
		payload = x.ifacePayload(st, v, t.AssertedType)
		// an interface value of dynamic type T is exactly the boxing of its payload
		if v.Dyn == nil && len(payload.L) == 1 {
			if re := x.makeIface(st, v.T, payload); len(re.L) == 1 && strings.HasPrefix(re.L[0], "(mk") {
				x.smt.Assert(implies(okT, eq(v.L[0], re.L[0])))
			}
		}
	}
	if t.CommaOk {
		// on failure the value is the zero value
		z := zeroVal(t.AssertedType)
		okN := x.smt.Name("taok", SBool, okT)
		r := Val{T: t.Type(), PtrPrefix: ""}
		for i := range payload.L {
			r.L = append(r.L, ite(okN, payload.L[i], z.L[i]))
		}
		r.L = append(r.L, okN)
		fr.extras[t] = []Val{payload, boolVal(okN)}
		return r
	}
	x.safetyOblige(fr, st, "typeassert", t, "", okT)
	// after a successful assertion the fact holds
	x.smt.Assert(implies(st.pc, okT))
	return payload
}

// ---------- maps ----------

func mapRegion(mt *types.Map) (string, string) {
	ks := scalarSort(mt.Key())
	if ks == "" {
		ks = SOpq
	}
	return "map:" + ks + ":" + elemPrefix(mt.Elem()), ks
}

func (x *Exec) initMap(st *State, t types.Type, r string) {
	mt := t.Underlying().(*types.Map)
	reg, ks := mapRegion(mt)
	p := reg + ":has"
	x.regHeap(p, SBool, ks)
	a := x.heapArr(st, p)
	c := x.smt.Fresh("H.has", x.arraySort(p))
	x.smt.Assert(eq(c, store(a, r, "((as const (Array "+ks+" Bool)) false)")))
	st.heap[p] = c
}

func (x *Exec) mapKey(k Val) string {
	if len(k.L) != 1 {
		return "opq.zero"
	}
	return k.L[0]
}

func (x *Exec) mapLoad(st *State, m Val, k Val) (Val, string) {
	mt := m.T.Underlying().(*types.Map)
	reg, _ := mapRegion(mt)
	key := x.mapKey(k)
	has := x.heapRead(st, reg+":has", SBool, m.L[0], key)
	has = and(not(eq(m.L[0], "#x00000000")), has)
	ls := leavesOf(mt.Elem())
	v := Val{T: mt.Elem(), L: make([]string, len(ls))}
	z := zeroVal(mt.Elem())
	for i, l := range ls {
		raw := x.heapRead(st, reg+":val"+l.Path, l.Sort, m.L[0], key)
		v.L[i] = ite(has, raw, z.L[i])
	}
	x.assumeTypeInv(st, v)
	return v, has
}

func (x *Exec) mapStore(st *State, m Val, k Val, v Val) {
	mt := m.T.Underlying().(*types.Map)
	reg, _ := mapRegion(mt)
	key := x.mapKey(k)
	x.heapWrite(st, reg+":has", SBool, m.L[0], key, "true")
	for i, l := range leavesOf(mt.Elem()) {
		x.heapWrite(st, reg+":val"+l.Path, l.Sort, m.L[0], key, v.L[i])
	}
}

func (x *Exec) mapDelete(st *State, m Val, k Val) {
	mt := m.T.Underlying().(*types.Map)
	reg, _ := mapRegion(mt)
	key := x.mapKey(k)
	// delete on nil map is a no-op; writing "false" at ref 0 is harmless
	x.heapWrite(st, reg+":has", SBool, m.L[0], key, "false")
}

func (x *Exec) doLookup(fr *Frame, st *State, t *ssa.Lookup) Val {
	xv := x.operand(fr, st, t.X)
	k := x.operand(fr, st, t.Index)
	if isString(t.X.Type()) {
		idx := to64(k)
		x.safetyOblige(fr, st, "bounds", t, "", and(app("bvsge", idx, bvLit(0, 64)), app("bvslt", idx, app("slen", xv.L[0]))))
		return Val{T: t.Type(), L: []string{app("sbyte", xv.L[0], idx)}}
	}
	x.siteClausesNamed(fr, nil, st, "maplookup", t, []Val{xv, k})
	v, has := x.mapLoad(st, xv, k)
	if t.CommaOk {
		r := Val{T: t.Type(), L: append(append([]string{}, v.L...), has)}
		return r
	}
	return v
}

func (x *Exec) doNext(fr *Frame, st *State, t *ssa.Next) Val {
	// (ok bool, k K, v V): nondeterministic iteration
	tp := t.Type().(*types.Tuple)
	r := Val{T: tp}
	ok := x.smt.Fresh("next.ok", SBool)
	r.L = append(r.L, ok)
	rng, _ := t.Iter.(*ssa.Range)
	var src Val
	if rng != nil {
		src = fr.rangeOf[rng]
	}
	if t.IsString || src.T == nil {
		for i := 1; i < tp.Len(); i++ {
			r.L = append(r.L, x.freshVal(st, "next", tp.At(i).Type()).L...)
		}
		return r
	}
	if mt, isMap := src.T.Underlying().(*types.Map); isMap {
		kt := tp.At(1).Type()
		var k Val
		if _, inv := kt.(*types.Basic); inv && kt.(*types.Basic).Kind() == types.Invalid {
			k = x.freshVal(st, "next.k", mt.Key())
		} else {
			k = x.freshVal(st, "next.k", mt.Key())
		}
		v, has := x.mapLoad(st, src, k)
		x.smt.Assert(implies(and(st.pc, ok), has))
		for i := 1; i < tp.Len(); i++ {
			at := tp.At(i).Type()
			if b, isB := at.(*types.Basic); isB && b.Kind() == types.Invalid {
				r.L = append(r.L, "opq.zero")
				continue
			}
			if i == 1 {
				r.L = append(r.L, k.L...)
			} else {
				r.L = append(r.L, v.L...)
			}
		}
		return r
	}
	for i := 1; i < tp.Len(); i++ {
		r.L = append(r.L, x.freshVal(st, "next", tp.At(i).Type()).L...)
	}
	return r
}

// ---------- channels: credit counting ----------
// ghost per channel: sent (messages sent or promised by spawned senders),
// recvd (messages received).

func (x *Exec) chanInit(st *State, r string, size string) {
	x.heapWrite(st, "chan.sent", SBV64, r, "", bvLit(0, 64))
	x.heapWrite(st, "chan.recvd", SBV64, r, "", bvLit(0, 64))
	x.heapWrite(st, "chan.cap", SBV64, r, "", size)
	x.heapWrite(st, "chan.gotdata", SBool, r, "", "false")
}

func (x *Exec) chanSend(fr *Frame, st *State, ch Val, instr ssa.Instruction) {
	cur := x.heapRead(st, "chan.sent", SBV64, ch.L[0], "")
	x.heapWrite(st, "chan.sent", SBV64, ch.L[0], "", app("bvadd", cur, bvLit(1, 64)))
}

func (x *Exec) chanRecv(fr *Frame, st *State, ch Val, t *ssa.UnOp) Val {
	sent := x.heapRead(st, "chan.sent", SBV64, ch.L[0], "")
	rec := x.heapRead(st, "chan.recvd", SBV64, ch.L[0], "")
	if x.safety || x.wantLiveness {
		site := x.srcText(t)
		name := x.siteName(fmt.Sprintf("%s/recv.credit@%s", x.prog.relName(x.topFn), site))
		x.oblige(st, "recv.credit", name, x.livenessTag, t.Pos(), app("bvult", rec, sent))
	}
	x.heapWrite(st, "chan.recvd", SBV64, ch.L[0], "", app("bvadd", rec, bvLit(1, 64)))
	et := t.Type()
	if t.CommaOk {
		tp := et.(*types.Tuple)
		v := x.freshVal(st, "recv", tp.At(0).Type())
		return Val{T: tp, L: append(v.L, x.smt.Fresh("recv.ok", SBool))}
	}
	v := x.freshVal(st, "recv", et)
	// record whether anything other than nil has been received (see chanGotData)
	if isSlice(et) || isRefType(et) || isInterface(et) {
		got := x.heapRead(st, "chan.gotdata", SBool, ch.L[0], "")
		x.heapWrite(st, "chan.gotdata", SBool, ch.L[0], "", or(got, nonNilTerm(v)))
		// ghost recvData (if declared): something other than nil was received from some channel
		if g, ok := st.ghost["recvData"]; ok {
			st.ghost["recvData"] = Val{T: g.T, L: []string{or(g.L[0], nonNilTerm(v))}}
		}
	}
	return v
}

var _ = strings.HasPrefix

// foldSub64 computes a-b on 64-bit literals, or builds the term.
func foldSub64(a, b string) string {
	if strings.HasPrefix(a, "#x") && strings.HasPrefix(b, "#x") {
		if av, ok := bvValue(a); ok {
			if bv, ok := bvValue(b); ok {
				return bvLit(av-bv, 64)
			}
		}
	}
	return app("bvsub", a, b)
}

// standard library package variables that hold a non-nil pointer (set once by their package)
var libraryNonNil = map[string]bool{
	"encoding/base64.StdEncoding": true, "encoding/base64.URLEncoding": true,
	"encoding/base64.RawStdEncoding": true, "encoding/base64.RawURLEncoding": true,
}
