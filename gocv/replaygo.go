package main

// Replay drivers are added in replaygo.go; this first version has none.

func tryReplay(run *checkRun, o *Obligation, base string) string { return "" }

func runReplayTest(spec string) int { return 0 }
