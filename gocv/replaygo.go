package main

// Replay driver R1: turn a solver model into concrete arguments, call the
// real function in its own package through `go test -overlay` (nothing is
// written into /repo), and decide from what the real code did whether the
// obligation is violated on the real code.

import (
	"bytes"
	"context"
	"encoding/json"
	"fmt"
	"go/types"
	"os"
	"os/exec"
	"path/filepath"
	"strings"
	"time"

	"golang.org/x/tools/go/ssa"
)

type cval struct {
	kind   string // int | bool | bytes | string | nil | struct | ptr | conn | unsupported
	w      int
	signed bool
	u      uint64
	b      bool
	bs     []byte
	fields map[string]*cval
	isNil  bool
	typ    types.Type
	chunks [][]byte // scripted transport: successive ReadPacket results
}

// getValues runs one solver on query+get-value and returns term->value.
func getValues(query string, terms []string, timeoutS int) (map[string]string, bool) {
	if len(terms) == 0 {
		return map[string]string{}, true
	}
	f, err := os.CreateTemp(workDir(), "gv-*.smt2")
	if err != nil {
		return nil, false
	}
	name := f.Name()
	var b strings.Builder
	b.WriteString(query)
	for i := 0; i < len(terms); i += 200 {
		j := min(i+200, len(terms))
		b.WriteString("(get-value (" + strings.Join(terms[i:j], " ") + "))\n")
	}
	f.WriteString(b.String())
	f.Close()
	defer os.Remove(name)
	for _, sp := range []int{0, 1} {
		st, out, _ := runOne(context.Background(), solvers[sp], name, timeoutS)
		if st != "sat" {
			continue
		}
		toks := tokenize(out)
		res := map[string]string{}
		// parse ((term value) (term value) ...) groups in order
		idx := 0
		i := 1 // skip "sat"
		for i < len(toks) && idx < len(terms) {
			if toks[i] == "(" && i+1 < len(toks) && toks[i+1] == "(" {
				i++
				for i < len(toks) && toks[i] == "(" && idx < len(terms) {
					e := skipSexp(toks, i) // whole (term value)
					// term is first sexp inside
					ts := i + 1
					te := skipSexp(toks, ts)
					res[terms[idx]] = strings.Join(toks[te:e-1], " ")
					idx++
					i = e
				}
				if i < len(toks) && toks[i] == ")" {
					i++
				}
			} else {
				i++
			}
		}
		if idx == len(terms) {
			return res, true
		}
	}
	return nil, false
}

type replayPlan struct {
	fn     *ssa.Function
	o      *Obligation
	x      *Exec
	fr     *Frame
	params []Val
	names  []string
	cvals  []*cval
	ghost0 map[string]*cval
	notes  []string
	imports map[string]bool
	streamBytes []byte
	cur0 uint64
}

func supportedParam(t types.Type, depth int) bool {
	switch u := t.Underlying().(type) {
	case *types.Basic:
		return u.Info()&(types.IsInteger|types.IsBoolean|types.IsString) != 0
	case *types.Slice:
		return scalarSort(u.Elem()) == SBV8 && isInteger(u.Elem())
	case *types.Struct:
		return depth < 3
	case *types.Pointer:
		_, ok := u.Elem().Underlying().(*types.Struct)
		return ok && depth < 3
	case *types.Interface:
		return true // nil, or a recording fake for net.Conn
	case *types.Signature:
		return true // nil
	case *types.Map:
		return true
	case *types.Chan:
		return false // a nil channel blocks the replayed function for ever
	}
	return false
}

// collectTerms lists the SMT terms needed to build concrete value for v.
func (p *replayPlan) collectTerms(v Val, depth int, st *State, out *[]string) {
	switch u := v.T.Underlying().(type) {
	case *types.Basic:
		if isString(v.T) {
			*out = append(*out, app("slen", v.L[0]))
			return
		}
		*out = append(*out, v.L[0])
	case *types.Slice:
		*out = append(*out, v.L[0], v.L[1], v.L[2])
	case *types.Struct:
		for i := 0; i < u.NumFields(); i++ {
			p.collectTerms(v.field(i), depth+1, st, out)
		}
	case *types.Pointer:
		*out = append(*out, v.L[0])
		if stt, ok := u.Elem().Underlying().(*types.Struct); ok && depth < 2 {
			for i := 0; i < stt.NumFields(); i++ {
				ft := stt.Field(i).Type()
				if !supportedParam(ft, depth+1) || len(leavesOf(ft)) == 0 {
					continue
				}
				fp := Val{T: types.NewPointer(ft), L: v.L, PtrPrefix: v.ptrPrefixOr() + "." + stt.Field(i).Name(), PtrIndex: v.PtrIndex}
				if !p.regionsKnown(fp, ft) {
					continue
				}
				fv := p.x.loadValNoAssume(st, fp, ft)
				p.collectTerms(fv, depth+1, st, out)
			}
		}
	case *types.Interface, *types.Signature, *types.Map, *types.Chan:
		*out = append(*out, v.L[0])
	}
}

func (p *replayPlan) regionsKnown(fp Val, ft types.Type) bool {
	for _, l := range leavesOf(ft) {
		if _, ok := p.x.heapSort[fp.ptrPrefixOr()+l.Path]; !ok {
			return false
		}
	}
	return true
}

// loadValNoAssume reads from the entry heap without adding assertions.
func (x *Exec) loadValNoAssume(st *State, p Val, t types.Type) Val {
	prefix := p.ptrPrefixOr()
	ls := leavesOf(t)
	v := Val{T: t, L: make([]string, len(ls))}
	for i, l := range ls {
		a := "H0." + sanitize(prefix+l.Path)
		if cur, ok := st.heap[prefix+l.Path]; ok && cur != "" {
			a = cur
		}
		if p.PtrIndex != "" {
			v.L[i] = sel(sel(a, p.L[0]), p.PtrIndex)
		} else {
			v.L[i] = sel(a, p.L[0])
		}
	}
	return v
}

func modelBV(vals map[string]string, term string) (uint64, bool) {
	s, ok := vals[term]
	if !ok {
		return 0, false
	}
	return bvValue(s)
}

func (p *replayPlan) build(v Val, depth int, st *State, vals map[string]string, query string) *cval {
	c := &cval{typ: v.T}
	switch u := v.T.Underlying().(type) {
	case *types.Basic:
		switch {
		case isString(v.T):
			n, _ := modelBV(vals, app("slen", v.L[0]))
			if n > 8192 {
				c.kind = "unsupported"
				return c
			}
			c.kind = "string"
			var terms []string
			for i := uint64(0); i < n; i++ {
				terms = append(terms, app("sbyte", v.L[0], bvLit(i, 64)))
			}
			bv, ok := getValues(query, terms, 20)
			if !ok {
				c.kind = "unsupported"
				return c
			}
			for _, t := range terms {
				x, _ := bvValue(bv[t])
				c.bs = append(c.bs, byte(x))
			}
		case isBool(v.T):
			c.kind = "bool"
			c.b = strings.TrimSpace(vals[v.L[0]]) == "true"
		default:
			c.kind = "int"
			c.w = basicWidth(u)
			c.signed = !isUnsigned(v.T)
			c.u, _ = modelBV(vals, v.L[0])
		}
	case *types.Slice:
		ref, _ := modelBV(vals, v.L[0])
		n, _ := modelBV(vals, v.L[2])
		if ref == 0 && n == 0 {
			c.kind = "bytes"
			c.isNil = true
			return c
		}
		if n > 70000 {
			c.kind = "unsupported"
			return c
		}
		c.kind = "bytes"
		var terms []string
		p.x.regHeap("arr.bv8", SBV8, SBV64)
		arr := "H0.arr.bv8"
		for i := uint64(0); i < n; i++ {
			terms = append(terms, sel(sel(arr, v.L[0]), app("bvadd", v.L[1], bvLit(i, 64))))
		}
		c.bs = []byte{}
		if n > 0 {
			bv, ok := getValues(query, terms, 30)
			if !ok {
				c.kind = "unsupported"
				return c
			}
			for _, t := range terms {
				x, _ := bvValue(bv[t])
				c.bs = append(c.bs, byte(x))
			}
		}
	case *types.Struct:
		c.kind = "struct"
		c.fields = map[string]*cval{}
		for i := 0; i < u.NumFields(); i++ {
			if supportedParam(u.Field(i).Type(), depth+1) {
				c.fields[u.Field(i).Name()] = p.build(v.field(i), depth+1, st, vals, query)
			}
		}
	case *types.Pointer:
		ref, _ := modelBV(vals, v.L[0])
		c.kind = "ptr"
		if ref == 0 {
			c.isNil = true
			return c
		}
		c.fields = map[string]*cval{}
		if stt, ok := u.Elem().Underlying().(*types.Struct); ok && depth < 2 {
			for i := 0; i < stt.NumFields(); i++ {
				ft := stt.Field(i).Type()
				if !supportedParam(ft, depth+1) {
					continue
				}
				fp := Val{T: types.NewPointer(ft), L: v.L, PtrPrefix: v.ptrPrefixOr() + "." + stt.Field(i).Name(), PtrIndex: v.PtrIndex}
				if !p.regionsKnown(fp, ft) {
					continue
				}
				fv := p.x.loadValNoAssume(st, fp, ft)
				c.fields[stt.Field(i).Name()] = p.build(fv, depth+1, st, vals, query)
			}
		}
	case *types.Interface:
		c.kind = "iface"
		c.isNil = strings.TrimSpace(vals[v.L[0]]) == "inil"
		if qualifiedTypeName(v.T) == "net.Conn" {
			c.kind = "conn"
		}
		if strings.HasSuffix(qualifiedTypeName(v.T), "/transport.Transport") {
			c.kind = "transport"
			c.isNil = false
		}
	default:
		c.kind = "nilable"
		c.isNil = true
	}
	return c
}

// goLit renders a concrete value as Go source.
func goLit(c *cval, qual func(types.Type) string) string {
	switch c.kind {
	case "int":
		if c.signed {
			var s int64
			switch c.w {
			case 8:
				s = int64(int8(c.u))
			case 16:
				s = int64(int16(c.u))
			case 32:
				s = int64(int32(c.u))
			default:
				s = int64(c.u)
			}
			return fmt.Sprintf("%s(%d)", qual(c.typ), s)
		}
		return fmt.Sprintf("%s(%d)", qual(c.typ), c.u)
	case "bool":
		return fmt.Sprintf("%v", c.b)
	case "string":
		return fmt.Sprintf("%s(%q)", qual(c.typ), string(c.bs))
	case "bytes":
		if c.isNil {
			return "nil"
		}
		var parts []string
		for _, b := range c.bs {
			parts = append(parts, fmt.Sprintf("%d", b))
		}
		return "[]byte{" + strings.Join(parts, ",") + "}"
	case "struct":
		var parts []string
		for _, k := range sortedKeys(c.fields) {
			if f := c.fields[k]; f.kind != "unsupported" {
				parts = append(parts, k+": "+goLit(f, qual))
			}
		}
		return qual(c.typ) + "{" + strings.Join(parts, ", ") + "}"
	case "ptr":
		if c.isNil {
			return "nil"
		}
		et := c.typ.Underlying().(*types.Pointer).Elem()
		var parts []string
		for _, k := range sortedKeys(c.fields) {
			if f := c.fields[k]; f.kind != "unsupported" {
				parts = append(parts, k+": "+goLit(f, qual))
			}
		}
		return "&" + qual(et) + "{" + strings.Join(parts, ", ") + "}"
	case "conn":
		if c.isNil {
			return "nil"
		}
		return "&gocvRecConn{}"
	case "transport":
		var parts []string
		for _, ch := range c.chunks {
			var bs []string
			for _, b := range ch {
				bs = append(bs, fmt.Sprintf("%d", b))
			}
			parts = append(parts, "{"+strings.Join(bs, ",")+"}")
		}
		return fmt.Sprintf("&gocvScriptTransport{chunks: [][]byte{%s}, failLast: %v}", strings.Join(parts, ","), c.b)
	}
	return "nil"
}

// tryReplay looks for a model small enough to run, trying increasing bounds on
// slice/chunk lengths, and stops at the first model whose replay confirms the
// failure on the real code.
// replayDeadline bounds the time a check spends looking for concrete failing inputs
// (set by report: 90 s in the quick tier, 600 s in the thorough tier).
var replayDeadline time.Time

func tryReplay(run *checkRun, o *Obligation, base string) string {
	last := ""
	for _, bound := range []uint64{16, 64, 4200, 70000} {
		if !replayDeadline.IsZero() && time.Now().After(replayDeadline) {
			if last == "" {
				last = "replay: not attempted (replay time budget of this tier is used up)\n"
			}
			return last
		}
		r := tryReplayBound(run, o, base, bound)
		if strings.Contains(r, "no length terms") {
			return strings.Replace(r, " (no length terms)", "", 1)
		}
		if strings.Contains(r, "confirmed-on-real-code") || strings.Contains(r, "no driver") || strings.Contains(r, "outside driver R1") || strings.Contains(r, "closures are not replayed") {
			return r
		}
		if !strings.Contains(r, "could not obtain concrete model values") || last == "" {
			last = fmt.Sprintf("[length bound %d]\n%s", bound, r)
		}
	}
	return last
}

func tryReplayBound(run *checkRun, o *Obligation, base string, bound uint64) string {
	if o.exec == nil || o.frame == nil {
		return "replay: no driver for this obligation\n"
	}
	x, fr := o.exec, o.frame
	fn := fr.fn
	if fn.Pkg == nil || fn.Parent() != nil {
		return "replay: closures are not replayed by driver R1\n"
	}
	if len(fn.Params) == 0 {
		return "replay: no driver for this obligation (the function takes no inputs; what it does depends on files, environment and flags)\n"
	}
	p := &replayPlan{fn: fn, o: o, x: x, fr: fr}
	for _, prm := range fn.Params {
		if !supportedParam(prm.Type(), 0) {
			return fmt.Sprintf("replay: parameter %s of type %v is outside driver R1\n", prm.Name(), prm.Type())
		}
		p.params = append(p.params, fr.vals[prm])
		p.names = append(p.names, prm.Name())
	}
	var out strings.Builder
	query := o.smt.Query(o.prefix, o.pc, not(o.goal))
	// find a small model: bound slice and string lengths
	var lenTerms []string
	for _, v := range p.params {
		if isSlice(v.T) {
			lenTerms = append(lenTerms, v.L[2])
		} else if isString(v.T) {
			lenTerms = append(lenTerms, app("slen", v.L[0]))
		}
	}
	if o.retGhost != nil {
		for _, prm := range p.params {
			if strings.HasSuffix(qualifiedTypeName(prm.T), "/transport.Transport") {
				for _, k := range []string{"lastChunk", "prevChunk"} {
					if gv, ok := o.retGhost[k]; ok {
						lenTerms = append(lenTerms, gv.L[0])
					}
				}
			}
		}
	}
	var scal []string
	for _, v := range p.params {
		p.collectTerms(v, 0, fr.entry, &scal)
	}
	// entry ghost values
	var ghostNames []string
	for _, g := range sortedKeys(fr.entry.ghost) {
		gv := fr.entry.ghost[g]
		if len(gv.L) == 1 {
			ghostNames = append(ghostNames, g)
			scal = append(scal, gv.L[0])
		}
	}
	var vals map[string]string
	chosen := ""
	{
		q := strings.TrimSuffix(query, "(check-sat)\n")
		for _, lt := range lenTerms {
			q += "(assert (bvule " + lt + " " + bvLit(bound, 64) + "))\n"
		}
		q += "(check-sat)\n"
		if vs, ok := getValues(q, scal, 20); ok {
			vals, chosen = vs, q
		}
	}
	if vals == nil {
		if len(lenTerms) == 0 {
			return "replay: could not obtain concrete model values (quantified query or solver limit) (no length terms)\n"
		}
		return "replay: could not obtain concrete model values under the length bound (quantified query or solver limit)\n"
	}
	// pin scalars so that the byte queries describe the same model
	pinned := strings.TrimSuffix(chosen, "(check-sat)\n")
	for _, t := range scal {
		if v, ok := vals[t]; ok && !strings.Contains(v, "Iface") && !strings.Contains(v, "Str!") && !strings.Contains(v, "Fn!") && !strings.Contains(v, "Opq") && !strings.Contains(v, "as ") && !strings.Contains(v, "@") {
			pinned += "(assert (= " + t + " " + v + "))\n"
		}
	}
	pinned += "(check-sat)\n"
	for _, v := range p.params {
		c := p.build(v, 0, fr.entry, vals, pinned)
		p.cvals = append(p.cvals, c)
	}
	for i, c := range p.cvals {
		if c.kind == "transport" {
			if !p.scriptTransport(c, pinned, vals) {
				return "replay: could not derive the chunk sequence of the scripted transport from the model\n"
			}
			_ = i
		}
	}
	pkgPath := fn.Pkg.Pkg.Path()
	imports := map[string]bool{}
	qual := func(t types.Type) string {
		return types.TypeString(t, func(pk *types.Package) string {
			if pk.Path() == pkgPath {
				return ""
			}
			imports[pk.Path()] = true
			return pk.Name()
		})
	}
	for i := range p.cvals {
		goLit(p.cvals[i], qual)
		qual(p.params[i].T)
	}
	p.imports = imports
	src, ok := p.harness(qual)
	if !ok {
		return "replay: a parameter value could not be built (unsupported shape)\n"
	}
	testFile := base + ".replay_test.go"
	os.WriteFile(testFile, []byte(src), 0o644)
	rel := strings.TrimPrefix(pkgPath, repoModule)
	pkgDir := filepath.Join(repoDir, rel)
	spec := pkgDir + "|" + testFile
	fmt.Fprintf(&out, "replay-test: %s\n", spec)
	for i, n := range p.names {
		fmt.Fprintf(&out, "input %s = %s\n", n, truncate(goLit(p.cvals[i], qual), 400))
	}
	for _, nt := range p.notes {
		fmt.Fprintf(&out, "%s\n", nt)
	}
	res, raw := runHarness(pkgDir, testFile)
	if res == nil {
		fmt.Fprintf(&out, "replay: harness did not produce a result\n%s\n", truncate(raw, 2000))
		return out.String()
	}
	fmt.Fprintf(&out, "real-code-outcome: %s\n", truncate(mustJSON(res), 1500))
	switch o.Kind {
	case "bounds", "nil", "typeassert", "div", "panic", "makeslice", "nilmap", "nilfunc":
		if pm, ok := res["panic"]; ok {
			fmt.Fprintf(&out, "confirmed-on-real-code: the real function panics on this input: %v\n", pm)
		} else {
			fmt.Fprintf(&out, "not-confirmed: the real function did not panic on the model input\n")
		}
	case "ensures":
		if _, ok := res["panic"]; ok {
			fmt.Fprintf(&out, "confirmed-on-real-code: the real function panics on this input (no result can satisfy the postcondition): %v\n", res["panic"])
			break
		}
		verdict := p.validate(res, vals, ghostNames)
		out.WriteString(verdict)
	default:
		fmt.Fprintf(&out, "replay: obligation kind %s has no oracle in driver R1\n", o.Kind)
	}
	return out.String()
}

func mustJSON(v any) string {
	b, _ := json.Marshal(v)
	return string(b)
}

func runHarness(pkgDir, testFile string) (map[string]any, string) {
	ov := map[string]any{"Replace": map[string]string{filepath.Join(pkgDir, "zz_gocv_replay_test.go"): testFile}}
	ovPath := testFile + ".overlay.json"
	data, _ := json.Marshal(ov)
	os.WriteFile(ovPath, data, 0o644)
	ctx, cancel := context.WithTimeout(context.Background(), 120*time.Second)
	defer cancel()
	cmd := exec.CommandContext(ctx, "go", "test", "-overlay", ovPath, "-vet=off", "-count=1", "-timeout", "60s", "-v", "-run", "^TestGocvReplay$", ".")
	cmd.Dir = pkgDir
	cmd.Env = append(os.Environ(), "GOFLAGS=-mod=mod", "GOPROXY=off", "GOSUMDB=off", "GOTOOLCHAIN=local")
	var ob bytes.Buffer
	cmd.Stdout = &ob
	cmd.Stderr = &ob
	cmd.Run()
	raw := ob.String()
	for _, line := range strings.Split(raw, "\n") {
		if i := strings.Index(line, "GOCV-REPLAY:"); i >= 0 {
			var m map[string]any
			if json.Unmarshal([]byte(line[i+len("GOCV-REPLAY:"):]), &m) == nil {
				return m, raw
			}
		}
	}
	return nil, raw
}

func runReplayTest(spec string) int {
	parts := strings.SplitN(spec, "|", 2)
	if len(parts) != 2 {
		return 2
	}
	res, raw := runHarness(parts[0], parts[1])
	if res == nil {
		fmt.Println(raw)
		return 2
	}
	fmt.Println("re-run on the current tree:", mustJSON(res))
	return 0
}

// harness renders the Go test that calls the function with the model inputs
// and prints inputs-after and results as JSON.
func (p *replayPlan) harness(qual func(types.Type) string) (string, bool) {
	fn := p.fn
	var b strings.Builder
	fmt.Fprintf(&b, "package %s\n\nimport (\n\t\"encoding/json\"\n\t\"errors\"\n\t\"fmt\"\n\t\"io\"\n\t\"net\"\n\t\"testing\"\n\t\"time\"\n", fn.Pkg.Pkg.Name())
	std := map[string]bool{"encoding/json": true, "errors": true, "fmt": true, "io": true, "net": true, "testing": true, "time": true}
	for _, ip := range sortedKeys(p.imports) {
		if !std[ip] {
			fmt.Fprintf(&b, "\t%q\n", ip)
		}
	}
	b.WriteString(")\n\n")
	b.WriteString(`type gocvRecConn struct {
	net.Conn
	writes [][]byte
}

func (c *gocvRecConn) Write(b []byte) (int, error) {
	c.writes = append(c.writes, append([]byte{}, b...))
	return len(b), nil
}
func (c *gocvRecConn) Read(b []byte) (int, error)         { return 0, io.EOF }
func (c *gocvRecConn) Close() error                       { return nil }
func (c *gocvRecConn) SetDeadline(t time.Time) error      { return nil }

var _ = io.EOF
var _ = time.Now
var _ = errors.New

// gocvScriptTransport hands out a fixed sequence of chunks, then fails.
type gocvScriptTransport struct {
	chunks   [][]byte
	failLast bool
	calls    int
	lens     []int
	failed   bool
	written  [][]byte
}

func (s *gocvScriptTransport) ReadPacket() (int, []byte, error) {
	s.calls++
	if len(s.chunks) == 0 {
		s.failed = true
		s.lens = append(s.lens, 0)
		return 0, []byte{0, 0}, errors.New("scripted transport: end of script")
	}
	c := s.chunks[0]
	s.chunks = s.chunks[1:]
	s.lens = append(s.lens, len(c))
	s.failed = false
	return len(c), c, nil
}
func (s *gocvScriptTransport) WritePacket(b []byte) (int, error) {
	s.written = append(s.written, append([]byte{}, b...))
	return len(b), nil
}
func (s *gocvScriptTransport) Close() error { return nil }

func gocvEnc(v any) any {
	switch t := v.(type) {
	case nil:
		return map[string]any{"nil": true}
	case []byte:
		if t == nil {
			return map[string]any{"bytes": []int{}, "nilslice": true}
		}
		xs := make([]int, len(t))
		for i, b := range t {
			xs[i] = int(b)
		}
		return map[string]any{"bytes": xs}
	case string:
		xs := make([]int, len(t))
		for i := 0; i < len(t); i++ {
			xs[i] = int(t[i])
		}
		return map[string]any{"str": xs}
	case bool:
		return map[string]any{"bool": t}
	case error:
		return map[string]any{"nil": false, "err": t.Error()}
	case int, int8, int16, int32, int64, uint, uint8, uint16, uint32, uint64, uintptr:
		return map[string]any{"int": fmt.Sprint(t)}
	}
	return map[string]any{"other": fmt.Sprintf("%T", v), "nil": false}
}

func TestGocvReplay(t *testing.T) {
	out := map[string]any{}
	defer func() {
		if r := recover(); r != nil {
			out["panic"] = fmt.Sprint(r)
		}
		bs, _ := json.Marshal(out)
		fmt.Println("GOCV-REPLAY:" + string(bs))
	}()
`)
	var argNames []string
	for i, c := range p.cvals {
		if c.kind == "unsupported" {
			return "", false
		}
		an := fmt.Sprintf("a%d", i)
		argNames = append(argNames, an)
		lit := goLit(c, qual)
		if lit == "nil" {
			fmt.Fprintf(&b, "\tvar %s %s\n", an, qual(p.params[i].T))
		} else if c.kind == "transport" {
			fmt.Fprintf(&b, "\t%sfake := %s\n\tvar %s %s = %sfake\n", an, lit, an, qual(p.params[i].T), an)
		} else if c.kind == "conn" {
			fmt.Fprintf(&b, "\t%sfake := &gocvRecConn{}\n\tvar %s %s = %sfake\n", an, an, qual(p.params[i].T), an)
		} else {
			fmt.Fprintf(&b, "\tvar %s %s = %s\n", an, qual(p.params[i].T), lit)
		}
	}
	sig := fn.Signature
	nres := sig.Results().Len()
	var rs []string
	for i := 0; i < nres; i++ {
		rs = append(rs, fmt.Sprintf("r%d", i))
	}
	callee := fn.Name()
	callArgs := argNames
	if sig.Recv() != nil {
		callee = "(" + argNames[0] + ")." + fn.Name()
		callArgs = argNames[1:]
	}
	if nres > 0 {
		fmt.Fprintf(&b, "\t%s := %s(%s)\n", strings.Join(rs, ", "), callee, strings.Join(callArgs, ", "))
		var encs []string
		for _, r := range rs {
			encs = append(encs, "gocvEnc("+r+")")
		}
		fmt.Fprintf(&b, "\tout[\"results\"] = []any{%s}\n", strings.Join(encs, ", "))
	} else {
		fmt.Fprintf(&b, "\t%s(%s)\n", callee, strings.Join(callArgs, ", "))
	}
	// state after: byte slices, recorded writes, scalar fields of pointer params (depth 2)
	b.WriteString("\tafter := map[string]any{}\n")
	for i, c := range p.cvals {
		an := argNames[i]
		switch c.kind {
		case "bytes":
			fmt.Fprintf(&b, "\tafter[%q] = gocvEnc(%s)\n", p.names[i], an)
		case "conn":
			if !c.isNil {
				fmt.Fprintf(&b, "\t{\n\t\tws := []any{}\n\t\tfor _, w := range %sfake.writes {\n\t\t\tws = append(ws, gocvEnc(w))\n\t\t}\n\t\tafter[%q] = map[string]any{\"writes\": ws}\n\t}\n", an, p.names[i])
			}
		case "ptr":
			if !c.isNil {
				p.afterFields(&b, an, p.names[i], c, 0)
			}
		case "transport":
			fmt.Fprintf(&b, "\tafter[%q] = map[string]any{\"calls\": %sfake.calls, \"lens\": %sfake.lens, \"failed\": %sfake.failed}\n", p.names[i], an, an, an)
		}
	}
	b.WriteString("\tout[\"after\"] = after\n}\n")
	return b.String(), true
}

func (p *replayPlan) afterFields(b *strings.Builder, expr, name string, c *cval, depth int) {
	for _, k := range sortedKeys(c.fields) {
		f := c.fields[k]
		switch f.kind {
		case "int", "bool", "string", "bytes":
			fmt.Fprintf(b, "\tafter[%q] = gocvEnc(%s.%s)\n", name+"."+k, expr, k)
		case "ptr":
			if !f.isNil && depth < 2 {
				p.afterFields(b, expr+"."+k, name+"."+k, f, depth+1)
			}
		}
	}
}

// validate evaluates the violated clause over the concrete inputs and the
// outputs observed from the real code, using the solver as the evaluator.
func (p *replayPlan) validate(res map[string]any, vals map[string]string, ghostNames []string) string {
	o := p.o
	if o.clause == nil {
		return "replay: clause not available for validation\n"
	}
	x := NewExec(p.x.prog)
	x.topFn = p.fn
	st0 := &State{pc: "true", heap: map[string]string{}, ghost: map[string]Val{}, alloc: "#x00100000"}
	nextRef := uint64(0x100)
	type pend struct {
		ref string
		bs  []byte
	}
	var pre, post []pend
	newRef := func() string { nextRef++; return bvLit(nextRef, 32) }
	fr := x.newFrame(p.fn, nil)
	fr.top = true
	after, _ := res["after"].(map[string]any)
	bytesOf := func(m any) ([]byte, bool) {
		mm, ok := m.(map[string]any)
		if !ok {
			return nil, false
		}
		arr, ok := mm["bytes"].([]any)
		if !ok {
			arr, ok = mm["str"].([]any)
			if !ok {
				return nil, false
			}
		}
		bs := make([]byte, len(arr))
		for i, e := range arr {
			f, _ := e.(float64)
			bs[i] = byte(f)
		}
		return bs, true
	}
	var mk func(c *cval, name string) (Val, bool)
	structFieldWrites := []func(st *State, isPost bool){}
	mk = func(c *cval, name string) (Val, bool) {
		switch c.kind {
		case "int":
			return Val{T: c.typ, L: []string{bvLit(c.u, c.w)}}, true
		case "bool":
			return Val{T: c.typ, L: []string{fmt.Sprint(c.b)}}, true
		case "string":
			return Val{T: c.typ, L: []string{x.strLit(string(c.bs))}}, true
		case "bytes":
			if c.isNil {
				return zeroVal(c.typ), true
			}
			r := newRef()
			pre = append(pre, pend{r, c.bs})
			if a, ok := after[name]; ok {
				if bs, ok := bytesOf(a); ok {
					post = append(post, pend{r, bs})
				}
			} else {
				post = append(post, pend{r, c.bs})
			}
			n := bvLit(uint64(len(c.bs)), 64)
			return Val{T: c.typ, L: []string{r, bvLit(0, 64), n, n}}, true
		case "struct":
			v := Val{T: c.typ}
			stt := c.typ.Underlying().(*types.Struct)
			for i := 0; i < stt.NumFields(); i++ {
				f, ok := c.fields[stt.Field(i).Name()]
				if !ok || f.kind == "unsupported" {
					v.L = append(v.L, zeroVal(stt.Field(i).Type()).L...)
					continue
				}
				fv, ok := mk(f, name+"."+stt.Field(i).Name())
				if !ok {
					return v, false
				}
				v.L = append(v.L, fv.L...)
			}
			return v, true
		case "ptr":
			if c.isNil {
				return zeroVal(c.typ), true
			}
			r := newRef()
			pv := Val{T: c.typ, L: []string{r}}
			et := c.typ.Underlying().(*types.Pointer).Elem()
			stt := et.Underlying().(*types.Struct)
			for i := 0; i < stt.NumFields(); i++ {
				fname := stt.Field(i).Name()
				f, ok := c.fields[fname]
				if !ok || f.kind == "unsupported" {
					continue
				}
				fv, ok := mk(f, name+"."+fname)
				if !ok {
					continue
				}
				fp := Val{T: types.NewPointer(stt.Field(i).Type()), L: []string{r}, PtrPrefix: typePrefix(et) + "." + fname}
				fvc, fcv, fnm := fv, f, name+"."+fname
				structFieldWrites = append(structFieldWrites, func(st *State, isPost bool) {
					v := fvc
					if isPost {
						if a, ok := after[fnm]; ok {
							if am, ok := a.(map[string]any); ok {
								if s, ok := am["int"].(string); ok && fcv.kind == "int" {
									var u uint64
									if strings.HasPrefix(s, "-") {
										var sv int64
										fmt.Sscan(s, &sv)
										u = uint64(sv)
									} else {
										fmt.Sscan(s, &u)
									}
									v = Val{T: fcv.typ, L: []string{bvLit(u, fcv.w)}}
								} else if bv, ok := am["bool"].(bool); ok && fcv.kind == "bool" {
									v = Val{T: fcv.typ, L: []string{fmt.Sprint(bv)}}
								}
							}
						}
					}
					x.storeVal(st, fp, v)
				})
			}
			return pv, true
		case "conn", "iface", "transport":
			if c.isNil {
				return zeroVal(c.typ), true
			}
			t := x.smt.Fresh("fake", SIface)
			x.smt.Assert(not(eq(t, "inil")))
			return Val{T: c.typ, L: []string{t}}, true
		}
		return zeroVal(c.typ), true
	}
	for i, c := range p.cvals {
		v, ok := mk(c, p.names[i])
		if !ok {
			return "replay: could not rebuild parameter for validation\n"
		}
		fr.vals[p.fn.Params[i]] = v
		fr.params[p.names[i]] = v
	}
	// ghost entry values from the model (scalars only)
	for g, gv := range p.fr.entry.ghost {
		nv := x.freshVal(st0, "g0."+g, gv.T)
		if len(gv.L) == 1 {
			if mv, ok := vals[gv.L[0]]; ok {
				if _, isbv := bvValue(mv); isbv || mv == "true" || mv == "false" {
					nv = Val{T: gv.T, L: []string{mv}}
				}
			}
		}
		st0.ghost[g] = nv
	}
	// #backend / interface ghosts equal to a parameter in the model keep that identity
	for g, gv := range p.fr.entry.ghost {
		if isInterface(gv.T) && len(gv.L) == 1 {
			for i, pv := range p.params {
				if isInterface(pv.T) && vals[pv.L[0]] != "" && vals[pv.L[0]] == vals[gv.L[0]] {
					st0.ghost[g] = fr.params[p.names[i]]
				}
			}
		}
	}
	// the client's byte stream of the scripted transport, made concrete
	if p.streamBytes != nil {
		if g, ok := st0.ghost["stream"]; ok {
			sconst := x.smt.Fresh("stream", SStr)
			for i, b := range p.streamBytes {
				x.smt.Assert(eq(app("sbyte", sconst, bvLit(p.cur0+uint64(i), 64)), bvLit(uint64(b), 8)))
			}
			st0.ghost["stream"] = Val{T: g.T, L: []string{sconst}}
		}
	}
	x.regHeap("arr.bv8", SBV8, SBV64)
	setBytes := func(st *State, ps []pend, name string) {
		arr := x.smt.Declare(name, x.arraySort("arr.bv8"))
		for _, pd := range ps {
			for i, b := range pd.bs {
				x.smt.Assert(eq(sel(sel(arr, pd.ref), bvLit(uint64(i), 64)), bvLit(uint64(b), 8)))
			}
		}
		st.heap["arr.bv8"] = arr
	}
	setBytes(st0, pre, "Hpre.arr.bv8")
	for _, w := range structFieldWrites {
		w(st0, false)
	}
	fr.entry = st0.clone()
	st1 := st0.clone()
	// results
	env := map[string]Val{}
	results, _ := res["results"].([]any)
	names := resultNames(nil, p.fn.Signature)
	for i, rn := range names {
		if i >= len(results) {
			break
		}
		rt := p.fn.Signature.Results().At(i).Type()
		rm, _ := results[i].(map[string]any)
		var rv Val
		switch {
		case isSlice(rt):
			if bs, ok := bytesOf(rm); ok {
				if rm["nilslice"] == true {
					rv = zeroVal(rt)
				} else {
					r := newRef()
					post = append(post, pend{r, bs})
					n := bvLit(uint64(len(bs)), 64)
					rv = Val{T: rt, L: []string{r, bvLit(0, 64), n, n}}
				}
			} else {
				return "replay: result shape not supported for validation\n"
			}
		case isString(rt):
			bs, _ := bytesOf(rm)
			rv = Val{T: rt, L: []string{x.strLit(string(bs))}}
		case isBool(rt):
			bv, _ := rm["bool"].(bool)
			rv = Val{T: rt, L: []string{fmt.Sprint(bv)}}
		case isInteger(rt):
			s, _ := rm["int"].(string)
			var u uint64
			if strings.HasPrefix(s, "-") {
				var sv int64
				fmt.Sscan(s, &sv)
				u = uint64(sv)
			} else {
				fmt.Sscan(s, &u)
			}
			rv = Val{T: rt, L: []string{bvLit(u, bvWidth(scalarSort(rt)))}}
		case isInterface(rt):
			if rm["nil"] == true {
				rv = zeroVal(rt)
			} else {
				t := x.smt.Fresh("res", SIface)
				x.smt.Assert(not(eq(t, "inil")))
				rv = Val{T: rt, L: []string{t}}
			}
		default:
			rv = x.freshVal(st1, "res", rt)
		}
		env[rn] = rv
		if len(names) == 1 {
			env["result"] = rv
		}
	}
	// ghost effects observable through the recording connection
	for i, c := range p.cvals {
		if c.kind != "conn" || c.isNil {
			continue
		}
		am, _ := after[p.names[i]].(map[string]any)
		ws, _ := am["writes"].([]any)
		connV := fr.params[p.names[i]]
		if len(ws) > 0 {
			if bs, ok := bytesOf(ws[len(ws)-1]); ok {
				r := newRef()
				post = append(post, pend{r, bs})
				n := bvLit(uint64(len(bs)), 64)
				if g, ok := st1.ghost["connWrite"]; ok {
					st1.ghost["connWrite"] = Val{T: g.T, L: []string{r, bvLit(0, 64), n, n}}
				}
				if g, ok := st1.ghost["connWriteTo"]; ok {
					st1.ghost["connWriteTo"] = Val{T: g.T, L: connV.L}
				}
			}
		}
		if g, ok := st1.ghost["relayed"]; ok {
			isBackend := eq(connV.L[0], st0.ghost["backend"].L[0])
			st1.ghost["relayed"] = Val{T: g.T, L: []string{ite(isBackend, app("bvadd", st0.ghost["relayed"].L[0], bvLit(uint64(len(ws)), 64)), st0.ghost["relayed"].L[0])}}
		}
	}
	// ghost effects observable through the scripted transport
	for i, c := range p.cvals {
		if c.kind != "transport" {
			continue
		}
		am, _ := after[p.names[i]].(map[string]any)
		calls, _ := am["calls"].(float64)
		failed, _ := am["failed"].(bool)
		lensAny, _ := am["lens"].([]any)
		var lens []uint64
		total := uint64(0)
		for _, l := range lensAny {
			f, _ := l.(float64)
			lens = append(lens, uint64(f))
			total += uint64(f)
		}
		set := func(name, term string) {
			if g, ok := st1.ghost[name]; ok {
				st1.ghost[name] = Val{T: g.T, L: []string{term}}
			}
		}
		set("reads", app("bvadd", st0.ghost["reads"].L[0], bvLit(uint64(calls), 64)))
		set("cur", app("bvadd", st0.ghost["cur"].L[0], bvLit(total, 64)))
		set("readFailed", fmt.Sprint(failed))
		if n := len(lens); n >= 1 {
			set("lastChunk", bvLit(lens[n-1], 64))
			if n >= 2 {
				set("prevChunk", bvLit(lens[n-2], 64))
			} else {
				set("prevChunk", st0.ghost["lastChunk"].L[0])
			}
		}
	}
	setBytes(st1, post, "Hpost.arr.bv8")
	for _, w := range structFieldWrites {
		w(st1, true)
	}
	g := x.evalSpecBool(fr, st1, fr.entry, o.clause.Expr, env)
	if len(x.unsupp) > 0 {
		return fmt.Sprintf("replay: clause could not be evaluated on concrete values: %v\n", x.unsupp)
	}
	q := x.smt.Query(len(x.smt.asserts), g)
	r := Solve(q, 20, false, "validate")
	switch r.Status {
	case "unsat":
		return "confirmed-on-real-code: with the model's inputs the real function produced outputs for which the clause is false\n"
	case "sat":
		return "not-confirmed: on the model's inputs the real function satisfied the clause (the model exploits an imprecision of the contracts or of the engine)\n"
	}
	return "not-confirmed: validation query was " + r.Status + "\n"
}

// scriptTransport derives the chunks a scripted transport must deliver from the
// model: the ghost read counters at the failing return and the bytes of #stream.
func (p *replayPlan) scriptTransport(c *cval, pinned string, vals map[string]string) bool {
	o := p.o
	if o.retGhost == nil {
		return false
	}
	e := p.fr.entry.ghost
	need := []string{"reads", "prevChunk", "lastChunk", "readFailed", "cur", "stream"}
	for _, k := range need {
		if _, ok := o.retGhost[k]; !ok {
			return false
		}
	}
	terms := []string{o.retGhost["reads"].L[0], e["reads"].L[0], o.retGhost["prevChunk"].L[0], o.retGhost["lastChunk"].L[0], o.retGhost["readFailed"].L[0], e["cur"].L[0]}
	gv, ok := getValues(pinned, terms, 30)
	if !ok {
		return false
	}
	num := func(t string) uint64 { v, _ := bvValue(gv[t]); return v }
	d := num(terms[0]) - num(terms[1])
	prev, last := num(terms[2]), num(terms[3])
	failed := strings.TrimSpace(gv[terms[4]]) == "true"
	cur0 := num(terms[5])
	var lens []uint64
	switch {
	case d == 1:
		lens = []uint64{last}
	case d == 2:
		lens = []uint64{prev, last}
	default:
		return false
	}
	if failed {
		lens = lens[:len(lens)-1]
	}
	total := uint64(0)
	for _, l := range lens {
		if l > 70000 {
			return false
		}
		total += l
	}
	var bts []string
	st := e["stream"].L[0]
	for i := uint64(0); i < total+16; i++ { // a few bytes more than delivered: the header the clause talks about
		bts = append(bts, app("sbyte", st, bvLit(cur0+i, 64)))
	}
	pin2 := strings.TrimSuffix(pinned, "(check-sat)\n")
	for _, t := range terms {
		if v, ok := gv[t]; ok {
			pin2 += "(assert (= " + t + " " + v + "))\n"
		}
	}
	pin2 += "(check-sat)\n"
	bv, ok := getValues(pin2, bts, 60)
	if !ok && total > 0 {
		return false
	}
	var all []byte
	for _, t := range bts {
		x, _ := bvValue(bv[t])
		all = append(all, byte(x))
	}
	off := uint64(0)
	for _, l := range lens {
		c.chunks = append(c.chunks, all[off:off+l])
		off += l
	}
	c.b = failed
	p.streamBytes = all
	p.cur0 = cur0
	p.notes = append(p.notes, fmt.Sprintf("model: reads=%d prevChunk=%d lastChunk=%d readFailed=%v cur0=%d chunk lengths=%v", d, prev, last, failed, cur0, lens))
	return true
}
