package main

// Contract files: Gobra-style clauses in comment-only Go files
// (//go:build verif) inside /repo, and *.spec files under /verif/contracts
// for assumed contracts on dependencies.

import (
	"bufio"
	"fmt"
	"go/ast"
	"go/parser"
	"os"
	"regexp"
	"strings"
)

type SpecNode struct {
	Op   string // impl | iff | forall | exists | go
	A, B *SpecNode
	Var  string
	VarT string
	Go   ast.Expr
	Subs map[string]*SpecNode
	Text string
}

type Clause struct {
	Optional bool // site clause that may match nothing
	SiteKind string // site clause: requires, or maypanic (calls of this callee may panic in this function)
	Local  bool // ensures clause not exported to callers
	Kind   string // requires | ensures | invariant | assigns | nopanic | noreturn | pure | emits
	Spawn  bool   // clause applies at `go f()` sites
	Callee string // site clause: asserted in the caller at every call of this callee
	Loop   int
	Tags   []string
	Label  string
	Expr   *SpecNode
	Targets []string // assigns targets (raw text)
	Text   string
	File   string
	Line   int
}

type Contract struct {
	Key     string
	Kind    string // func | extern | functype | iface
	Params  []string
	Results []string
	Clauses []*Clause
	File    string
	Line    int
	Pkg     string // package path for func contracts in repo
}

type GhostDecl struct {
	Name string
	Type string
}

type PredDecl struct {
	Name string
	Args []string
	Ret  string
}

type SpecDef struct {
	Name   string
	Params []string
	Body   *SpecNode
}

type GhostMap struct {
	Name string
	Key  string
	Val  string
}

type ContractSet struct {
	GhostMaps map[string]*GhostMap
	Defs   map[string]*SpecDef
	ByKey  map[string]*Contract
	Ghosts []GhostDecl
	Preds  map[string]*PredDecl
	Files  []string
	Errors []string
}

func NewContractSet() *ContractSet {
	return &ContractSet{ByKey: map[string]*Contract{}, Preds: map[string]*PredDecl{}, Defs: map[string]*SpecDef{}, GhostMaps: map[string]*GhostMap{}}
}

var clauseRe = regexp.MustCompile(`^(spawn\s+|onpanic\s+|local\s+|site\??\s+\S+\s+)?(requires|ensures|assigns|ghostset|nopanic|noreturn|pure|inline|trusted|maypanic|loop\s+\d+\s+invariant)(\[[A-Za-z0-9_, ]*\])?\s*(.*)$`)
var labelRe = regexp.MustCompile(`^([A-Za-z_][A-Za-z0-9_.\-=<>+,]*):\s+(.*)$`)
var headRe = regexp.MustCompile(`^(func|extern|functype|iface)\s+(.*)$`)

// parseFile reads contract lines. For .go files only lines starting with //@
// are considered; for .spec files every non-comment line.
func (cs *ContractSet) parseFile(path string, pkgPath string) {
	f, err := os.Open(path)
	if err != nil {
		cs.Errors = append(cs.Errors, err.Error())
		return
	}
	defer f.Close()
	cs.Files = append(cs.Files, path)
	isGo := strings.HasSuffix(path, ".go")
	sc := bufio.NewScanner(f)
	sc.Buffer(make([]byte, 1<<20), 1<<20)
	var cur *Contract
	var last *Clause
	lineNo := 0
	defClause := map[*Clause]*SpecDef{}
	finishClause := func() {
		if last != nil {
			cs.finishClause(last)
			if d, ok := defClause[last]; ok {
				d.Body = last.Expr
			}
			last = nil
		}
	}
	for sc.Scan() {
		lineNo++
		line := sc.Text()
		if isGo {
			t := strings.TrimSpace(line)
			if !strings.HasPrefix(t, "//@") {
				continue
			}
			line = strings.TrimPrefix(t, "//@")
		} else {
			if i := strings.Index(line, "//"); i >= 0 && !strings.Contains(line[:i], `"`) {
				line = line[:i]
			}
		}
		t := strings.TrimSpace(line)
		if t == "" {
			continue
		}
		if strings.HasPrefix(t, "ghostmap ") {
			finishClause()
			fs := strings.Fields(t)
			if len(fs) >= 4 {
				cs.GhostMaps[fs[1]] = &GhostMap{fs[1], fs[2], fs[3]}
			}
			continue
		}
		if strings.HasPrefix(t, "ghost ") {
			finishClause()
			fs := strings.Fields(t)
			if len(fs) >= 3 {
				cs.Ghosts = append(cs.Ghosts, GhostDecl{fs[1], fs[2]})
			}
			continue
		}
		if strings.HasPrefix(t, "define ") {
			finishClause()
			// define name(a, b) = body   (single line or continued)
			rest := t[7:]
			k := strings.Index(rest, "=")
			i, j := strings.Index(rest, "("), strings.Index(rest, ")")
			if k < 0 || i < 0 || j < i || j > k {
				cs.Errors = append(cs.Errors, fmt.Sprintf("%s:%d: bad define", path, lineNo))
				continue
			}
			d := &SpecDef{Name: strings.TrimSpace(rest[:i]), Params: splitNames(rest[i+1 : j])}
			c := &Clause{Kind: "define", Text: strings.TrimSpace(rest[k+1:]), File: path, Line: lineNo}
			cs.Defs[d.Name] = d
			last = c
			defClause[c] = d
			continue
		}
		if strings.HasPrefix(t, "pred ") {
			finishClause()
			cs.parsePred(t[5:], path, lineNo)
			continue
		}
		if m := headRe.FindStringSubmatch(t); m != nil {
			finishClause()
			cur = cs.parseHead(m[1], m[2], pkgPath, path, lineNo)
			continue
		}
		if m := clauseRe.FindStringSubmatch(t); m != nil {
			finishClause()
			if cur == nil {
				cs.Errors = append(cs.Errors, fmt.Sprintf("%s:%d: clause outside contract", path, lineNo))
				continue
			}
			// "local ensures": checked at every return like ensures and may mention the function's locals;
			// callers do not get it as an assumption
			c := &Clause{Spawn: strings.HasPrefix(m[1], "spawn"), Local: strings.HasPrefix(m[1], "local"), File: path, Line: lineNo}
			kind := m[2]
			if strings.HasPrefix(m[1], "site") {
				c.Callee = strings.Fields(m[1])[1]
				// "site? <callee>": a site clause for accesses the function need not contain (it is not an
				// error when nothing matches): lock discipline for reads that a later edit may add
				c.Optional = strings.HasPrefix(m[1], "site?")
			}
			if strings.HasPrefix(kind, "loop") {
				fmt.Sscanf(kind, "loop %d invariant", &c.Loop)
				kind = "invariant"
			}
			c.Kind = kind
			if c.Callee != "" {
				c.Kind = "site"
				c.SiteKind = kind
			}
			if strings.HasPrefix(m[1], "onpanic") {
				// postcondition that also holds when the function lets a panic escape
				c.Kind = "onpanic"
			}
			if m[3] != "" {
				for _, tg := range strings.Split(strings.Trim(m[3], "[]"), ",") {
					if tg = strings.TrimSpace(tg); tg != "" {
						c.Tags = append(c.Tags, tg)
					}
				}
			}
			rest := strings.TrimSpace(m[4])
			if lm := labelRe.FindStringSubmatch(rest); lm != nil && c.Kind != "assigns" && c.Kind != "ghostset" {
				c.Label = lm[1]
				rest = lm[2]
			}
			c.Text = rest
			cur.Clauses = append(cur.Clauses, c)
			last = c
			continue
		}
		// continuation line
		if last != nil {
			last.Text += " " + t
			continue
		}
		cs.Errors = append(cs.Errors, fmt.Sprintf("%s:%d: cannot parse %q", path, lineNo, t))
	}
	finishClause()
}

func (cs *ContractSet) finishClause(c *Clause) {
	switch c.Kind {
	case "ghostset":
		k := strings.Index(c.Text, "=")
		if k < 0 || !(strings.HasPrefix(strings.TrimSpace(c.Text), "#") || strings.Contains(c.Text[:max(k, 0)], "(")) {
			cs.Errors = append(cs.Errors, fmt.Sprintf("%s:%d: ghostset needs '#name = expr'", c.File, c.Line))
			return
		}
		c.Targets = []string{strings.TrimSpace(c.Text[:k])}
		n, err := parseSpec(c.Text[k+1:])
		if err != nil {
			cs.Errors = append(cs.Errors, fmt.Sprintf("%s:%d: %v", c.File, c.Line, err))
			return
		}
		c.Expr = n
	case "assigns":
		for _, t := range splitTop(c.Text, ',') {
			if t = strings.TrimSpace(t); t != "" {
				c.Targets = append(c.Targets, t)
			}
		}
	case "nopanic", "noreturn", "pure", "inline", "trusted", "maypanic":
	default:
		if c.Kind == "site" && c.SiteKind == "maypanic" {
			return
		}
		n, err := parseSpec(c.Text)
		if err != nil {
			cs.Errors = append(cs.Errors, fmt.Sprintf("%s:%d: %v in %q", c.File, c.Line, err, c.Text))
			n = &SpecNode{Op: "go", Go: ast.NewIdent("true")}
		}
		c.Expr = n
	}
}

func (cs *ContractSet) parsePred(s, path string, line int) {
	// name(sort, sort) ret
	i := strings.Index(s, "(")
	j := strings.LastIndex(s, ")")
	if i < 0 || j < i {
		cs.Errors = append(cs.Errors, fmt.Sprintf("%s:%d: bad pred", path, line))
		return
	}
	p := &PredDecl{Name: strings.TrimSpace(s[:i]), Ret: strings.TrimSpace(s[j+1:])}
	for _, a := range strings.Split(s[i+1:j], ",") {
		if a = strings.TrimSpace(a); a != "" {
			p.Args = append(p.Args, a)
		}
	}
	if p.Ret == "" {
		p.Ret = "bool"
	}
	cs.Preds[p.Name] = p
}

// parseHead: "func (*Processor).matchAuth" or "extern net.DialTimeout(network, address, d) (c, err)"
func (cs *ContractSet) parseHead(kind, rest, pkgPath, path string, line int) *Contract {
	c := &Contract{Kind: kind, File: path, Line: line, Pkg: pkgPath}
	name := rest
	// optional parameter/result names: find the last top-level "(...)" groups after the name
	// The name itself may start with "(" for methods: (*T).m
	idx := 0
	if strings.HasPrefix(name, "(") {
		// skip receiver group
		d := 0
		for i, ch := range name {
			if ch == '(' {
				d++
			} else if ch == ')' {
				d--
				if d == 0 {
					idx = i + 1
					break
				}
			}
		}
	}
	if k := strings.Index(name[idx:], "("); k >= 0 {
		sig := name[idx+k:]
		name = strings.TrimSpace(name[:idx+k])
		groups := topGroups(sig)
		if len(groups) > 0 {
			c.Params = splitNames(groups[0])
		}
		if len(groups) > 1 {
			c.Results = splitNames(groups[1])
		}
	}
	name = strings.TrimSpace(name)
	switch kind {
	case "func":
		c.Key = pkgPath + "|" + name
	default:
		c.Key = kind + ":" + name
	}
	if old, dup := cs.ByKey[c.Key]; dup {
		// merge clauses: allows a function's contract to be split over files
		return old
	}
	cs.ByKey[c.Key] = c
	return c
}

func topGroups(s string) []string {
	var gs []string
	d, start := 0, -1
	for i, ch := range s {
		if ch == '(' {
			if d == 0 {
				start = i + 1
			}
			d++
		} else if ch == ')' {
			d--
			if d == 0 && start >= 0 {
				gs = append(gs, s[start:i])
				start = -1
			}
		}
	}
	return gs
}

func splitNames(s string) []string {
	var r []string
	for _, p := range strings.Split(s, ",") {
		p = strings.TrimSpace(p)
		if p == "" {
			continue
		}
		r = append(r, strings.Fields(p)[0])
	}
	return r
}

// splitTop splits s at top-level occurrences of sep.
func splitTop(s string, sep byte) []string {
	var parts []string
	d := 0
	inStr := false
	last := 0
	for i := 0; i < len(s); i++ {
		ch := s[i]
		if ch == '"' {
			inStr = !inStr
		}
		if inStr {
			continue
		}
		switch ch {
		case '(', '[', '{':
			d++
		case ')', ']', '}':
			d--
		default:
			if ch == sep && d == 0 {
				parts = append(parts, s[last:i])
				last = i + 1
			}
		}
	}
	parts = append(parts, s[last:])
	return parts
}

// findTop returns the index of the first top-level occurrence of tok, or -1.
func findTop(s, tok string) int {
	d := 0
	inStr := false
	for i := 0; i+len(tok) <= len(s); i++ {
		ch := s[i]
		if ch == '"' {
			inStr = !inStr
		}
		if inStr {
			continue
		}
		switch ch {
		case '(', '[', '{':
			d++
			continue
		case ')', ']', '}':
			d--
			continue
		}
		if d == 0 && strings.HasPrefix(s[i:], tok) {
			return i
		}
	}
	return -1
}

var ghostRe = regexp.MustCompile(`#([A-Za-z_][A-Za-z0-9_]*)`)

// parseSpec parses the clause language: Go expressions extended with
// ==>, <==>, forall/exists x [type] :: body, old(e), #ghost.
func parseSpec(s string) (*SpecNode, error) {
	s = strings.TrimSpace(s)
	if s == "" {
		return nil, fmt.Errorf("empty expression")
	}
	for _, q := range []string{"forall", "exists"} {
		if strings.HasPrefix(s, q+" ") {
			k := findTop(s, "::")
			if k < 0 {
				return nil, fmt.Errorf("%s without ::", q)
			}
			hd := strings.Fields(s[len(q):k])
			if len(hd) == 0 {
				return nil, fmt.Errorf("%s without variable", q)
			}
			n := &SpecNode{Op: q, Var: hd[0], VarT: "int", Text: s}
			if len(hd) > 1 {
				n.VarT = hd[1]
			}
			b, err := parseSpec(s[k+2:])
			if err != nil {
				return nil, err
			}
			n.A = b
			return n, nil
		}
	}
	if k := findTop(s, "<==>"); k >= 0 {
		a, err := parseSpec(s[:k])
		if err != nil {
			return nil, err
		}
		b, err := parseSpec(s[k+4:])
		if err != nil {
			return nil, err
		}
		return &SpecNode{Op: "iff", A: a, B: b, Text: s}, nil
	}
	if k := findTop(s, "==>"); k >= 0 {
		a, err := parseSpec(s[:k])
		if err != nil {
			return nil, err
		}
		b, err := parseSpec(s[k+3:])
		if err != nil {
			return nil, err
		}
		return &SpecNode{Op: "impl", A: a, B: b, Text: s}, nil
	}
	// parenthesised sub-expressions containing spec-only syntax become placeholders
	n := &SpecNode{Op: "go", Subs: map[string]*SpecNode{}, Text: s}
	var out strings.Builder
	i := 0
	for i < len(s) {
		if s[i] == '"' {
			j := i + 1
			for j < len(s) && s[j] != '"' {
				if s[j] == '\\' {
					j++
				}
				j++
			}
			out.WriteString(s[i:min(j+1, len(s))])
			i = j + 1
			continue
		}
		if s[i] == '(' {
			// find matching paren
			d, j := 0, i
			for ; j < len(s); j++ {
				if s[j] == '(' {
					d++
				} else if s[j] == ')' {
					d--
					if d == 0 {
						break
					}
				}
			}
			if j >= len(s) {
				return nil, fmt.Errorf("unbalanced parentheses")
			}
			inner := s[i+1 : j]
			if findTop(inner, "==>") >= 0 || strings.HasPrefix(strings.TrimSpace(inner), "forall ") || strings.HasPrefix(strings.TrimSpace(inner), "exists ") {
				sub, err := parseSpec(inner)
				if err != nil {
					return nil, err
				}
				name := fmt.Sprintf("sub__%d", len(n.Subs))
				n.Subs[name] = sub
				out.WriteString("(" + name + ")")
				i = j + 1
				continue
			}
			// recurse into the group textually to catch nested special syntax
			if strings.Contains(inner, "==>") || strings.Contains(inner, "forall ") || strings.Contains(inner, "exists ") {
				// nested deeper: process inner as its own Go-expression with subs
				sub, err := parseSpec(inner)
				if err != nil {
					return nil, err
				}
				name := fmt.Sprintf("sub__%d", len(n.Subs))
				n.Subs[name] = sub
				// keep call syntax: f(<inner>) must remain a call; only safe when inner has no commas at top level
				if len(splitTop(inner, ',')) == 1 {
					out.WriteString("(" + name + ")")
					i = j + 1
					continue
				}
				delete(n.Subs, name)
			}
		}
		out.WriteByte(s[i])
		i++
	}
	txt := ghostRe.ReplaceAllString(out.String(), "ghost__$1")
	e, err := parser.ParseExpr(txt)
	if err != nil {
		return nil, err
	}
	n.Go = e
	return n, nil
}

func (c *Contract) has(kind string) bool {
	for _, cl := range c.Clauses {
		if cl.Kind == kind {
			return true
		}
	}
	return false
}
