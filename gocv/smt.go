package main

// SMT-LIB emission, solver racing and model parsing.

import (
	"bytes"
	"context"
	"fmt"
	"os"
	"os/exec"
	"regexp"
	"sort"
	"strings"
	"sync"
	"time"
)

// ---------- term helpers (terms are plain SMT-LIB strings) ----------

const (
	SBool  = "Bool"
	SStr   = "Str"
	SRef   = "(_ BitVec 32)"
	SIface = "Iface"
	SFn    = "Fn"
	SOpq   = "Opq" // opaque values (floats, unsupported)
	SBV64  = "(_ BitVec 64)"
	SBV8   = "(_ BitVec 8)"
)

func bvSort(n int) string { return fmt.Sprintf("(_ BitVec %d)", n) }

func bvWidth(sort string) int {
	var n int
	if _, err := fmt.Sscanf(sort, "(_ BitVec %d)", &n); err == nil {
		return n
	}
	return 0
}

func bvLit(v uint64, n int) string {
	if n%4 == 0 {
		if n < 64 {
			v &= (uint64(1) << uint(n)) - 1
		}
		return fmt.Sprintf("#x%0*x", n/4, v)
	}
	if n < 64 {
		v &= (uint64(1) << uint(n)) - 1
	}
	return fmt.Sprintf("#b%0*b", n, v)
}

func and(xs ...string) string {
	var ys []string
	for _, x := range xs {
		if x == "true" || x == "" {
			continue
		}
		if x == "false" {
			return "false"
		}
		ys = append(ys, x)
	}
	switch len(ys) {
	case 0:
		return "true"
	case 1:
		return ys[0]
	}
	return "(and " + strings.Join(ys, " ") + ")"
}

func or(xs ...string) string {
	var ys []string
	for _, x := range xs {
		if x == "false" || x == "" {
			continue
		}
		if x == "true" {
			return "true"
		}
		ys = append(ys, x)
	}
	switch len(ys) {
	case 0:
		return "false"
	case 1:
		return ys[0]
	}
	return "(or " + strings.Join(ys, " ") + ")"
}

func not(x string) string {
	if x == "true" {
		return "false"
	}
	if x == "false" {
		return "true"
	}
	if strings.HasPrefix(x, "(not ") && balancedPrefix(x[5:len(x)-1]) {
		return x[5 : len(x)-1]
	}
	return "(not " + x + ")"
}

func balancedPrefix(s string) bool {
	d := 0
	for i, c := range s {
		if c == '(' {
			d++
		} else if c == ')' {
			d--
			if d < 0 {
				return false
			}
			if d == 0 && i != len(s)-1 {
				return false
			}
		} else if d == 0 && c == ' ' {
			return false
		}
	}
	return d == 0
}

func implies(a, b string) string {
	if a == "true" {
		return b
	}
	if a == "false" || b == "true" {
		return "true"
	}
	return "(=> " + a + " " + b + ")"
}

func ite(c, a, b string) string {
	if c == "true" || a == b {
		return a
	}
	if c == "false" {
		return b
	}
	return "(ite " + c + " " + a + " " + b + ")"
}

func eq(a, b string) string {
	if a == b {
		return "true"
	}
	return "(= " + a + " " + b + ")"
}

func app(f string, args ...string) string {
	// peephole: x+0, 0+x, x-0 (index arithmetic produces many of them; smaller terms for the solvers)
	if len(args) == 2 {
		switch f {
		case "bvadd":
			if isZeroLit(args[1]) {
				return args[0]
			}
			if isZeroLit(args[0]) {
				return args[1]
			}
		case "bvsub":
			if isZeroLit(args[1]) {
				return args[0]
			}
			if args[0] == args[1] && strings.HasPrefix(args[0], "#x") {
				return args[0][:2] + strings.Repeat("0", len(args[0])-2)
			}
		}
	}
	return "(" + f + " " + strings.Join(args, " ") + ")"
}

func isZeroLit(t string) bool {
	return strings.HasPrefix(t, "#x") && strings.Trim(t[2:], "0") == ""
}

func sel(a, i string) string      { return "(select " + a + " " + i + ")" }
func store(a, i, v string) string { return "(store " + a + " " + i + " " + v + ")" }

// zero/sign extension or truncation from width n to width m
func bvResize(t string, n, m int, signed bool) string {
	if n == m {
		return t
	}
	if m < n {
		return fmt.Sprintf("((_ extract %d 0) %s)", m-1, t)
	}
	if signed {
		return fmt.Sprintf("((_ sign_extend %d) %s)", m-n, t)
	}
	return fmt.Sprintf("((_ zero_extend %d) %s)", m-n, t)
}

// ---------- solver context: declarations + ordered background assertions ----------

type Decl struct {
	Name string
	Text string
}

type SMT struct {
	decls    []string
	declared map[string]bool
	asserts  []string
	fresh    int
}

func NewSMT() *SMT {
	s := &SMT{declared: map[string]bool{}}
	return s
}

func (s *SMT) Declare(name, sort string) string {
	if !s.declared[name] {
		s.declared[name] = true
		s.decls = append(s.decls, fmt.Sprintf("(declare-fun %s () %s)", name, sort))
	}
	return name
}

func (s *SMT) DeclareFun(name string, args []string, ret string) {
	if !s.declared[name] {
		s.declared[name] = true
		s.decls = append(s.decls, fmt.Sprintf("(declare-fun %s (%s) %s)", name, strings.Join(args, " "), ret))
	}
}

func (s *SMT) DeclareRaw(key, text string) {
	if !s.declared[key] {
		s.declared[key] = true
		s.decls = append(s.decls, text)
	}
}

var identSan = regexp.MustCompile(`[^A-Za-z0-9_.$]`)

func sanitize(s string) string { return identSan.ReplaceAllString(s, "_") }

func (s *SMT) Fresh(hint, sort string) string {
	s.fresh++
	name := fmt.Sprintf("%s!%d", sanitize(hint), s.fresh)
	return s.Declare(name, sort)
}

func (s *SMT) Assert(t string) {
	if t == "true" {
		return
	}
	s.asserts = append(s.asserts, t)
}

// Name introduces a definition for a long term to keep queries linear in size.
func (s *SMT) Name(hint, sort, term string) string {
	if len(term) <= 48 {
		return term
	}
	c := s.Fresh(hint, sort)
	s.Assert(eq(c, term))
	return c
}

const prelude = `(set-option :produce-models true)
(set-logic ALL)
(declare-sort Str 0)
(declare-sort Iface 0)
(declare-sort Fn 0)
(declare-sort Opq 0)
(declare-fun inil () Iface)
(declare-fun fnil () Fn)
(declare-fun fcode (Fn) (_ BitVec 32))
(declare-fun fbindfn0 (Fn) Fn)
(declare-fun fbindfn1 (Fn) Fn)
(declare-fun fbindfn2 (Fn) Fn)
(declare-fun fbindref0 (Fn) (_ BitVec 32))
(declare-fun fbindref1 (Fn) (_ BitVec 32))
(declare-fun fbindref2 (Fn) (_ BitVec 32))
(declare-fun str.empty () Str)
(declare-fun slen (Str) (_ BitVec 64))
(declare-fun sarr (Str) (Array (_ BitVec 64) (_ BitVec 8)))
(define-fun sbyte ((s Str) (i (_ BitVec 64))) (_ BitVec 8) (select (sarr s) i))
(declare-fun opq.zero () Opq)
(declare-fun ityp (Iface) (_ BitVec 16))
(declare-fun iref (Iface) (_ BitVec 32))
(declare-fun istr (Iface) Str)
(declare-fun ibool (Iface) Bool)
(declare-fun ibv (Iface) (_ BitVec 64))
(declare-fun mkiref ((_ BitVec 16) (_ BitVec 32)) Iface)
(declare-fun mkistr (Str) Iface)
(declare-fun mkibool (Bool) Iface)
(declare-fun mkibv ((_ BitVec 16) (_ BitVec 64)) Iface)
(assert (= (slen str.empty) #x0000000000000000))
(assert (= (ityp inil) #x0000))
`

func (s *SMT) Query(prefix int, extra ...string) string {
	return s.QueryDecls(prefix, nil, extra...)
}

func (s *SMT) QueryDecls(prefix int, moreDecls []string, extra ...string) string {
	var b strings.Builder
	b.WriteString(prelude)
	for _, d := range s.decls {
		b.WriteString(d)
		b.WriteByte('\n')
	}
	for _, d := range moreDecls {
		b.WriteString(d)
		b.WriteByte('\n')
	}
	if prefix > len(s.asserts) {
		prefix = len(s.asserts)
	}
	for _, a := range s.asserts[:prefix] {
		b.WriteString("(assert ")
		b.WriteString(a)
		b.WriteString(")\n")
	}
	for _, e := range extra {
		b.WriteString("(assert ")
		b.WriteString(e)
		b.WriteString(")\n")
	}
	b.WriteString("(check-sat)\n")
	return b.String()
}

// ---------- solver racing ----------

type SolverResult struct {
	Status string // unsat | sat | unknown | timeout | error
	Solver string
	Secs   float64
	Model  string
	Raw    string
	// per-solver answers for thorough tier
	All map[string]string
}

type solverSpec struct {
	name string
	args func(file string, timeoutS int) []string
}

var solvers = []solverSpec{
	{"z3-new", func(f string, t int) []string { return []string{"z3-new", fmt.Sprintf("-T:%d", t), f} }},
	{"z3", func(f string, t int) []string { return []string{"/usr/bin/z3", fmt.Sprintf("-T:%d", t), f} }},
	{"cvc5", func(f string, t int) []string {
		return []string{"cvc5", "--produce-models", fmt.Sprintf("--tlimit=%d", t*1000), f}
	}},
}

var solverSem = make(chan struct{}, 16)

func runOne(ctx context.Context, sp solverSpec, file string, timeoutS int) (status, out string, secs float64) {
	solverSem <- struct{}{}
	defer func() { <-solverSem }()
	if ctx.Err() != nil {
		return "cancelled", "", 0
	}
	t0 := time.Now()
	args := sp.args(file, timeoutS)
	cctx, cancel := context.WithTimeout(ctx, time.Duration(timeoutS+2)*time.Second)
	defer cancel()
	cmd := exec.CommandContext(cctx, args[0], args[1:]...)
	var ob bytes.Buffer
	cmd.Stdout = &ob
	cmd.Stderr = &ob
	cmd.Run()
	secs = time.Since(t0).Seconds()
	out = ob.String()
	first := strings.TrimSpace(strings.SplitN(out, "\n", 2)[0])
	switch first {
	case "unsat", "sat", "unknown":
		status = first
	case "timeout":
		status = "timeout"
	default:
		if ctx.Err() != nil {
			status = "cancelled"
		} else if cctx.Err() != nil {
			status = "timeout"
		} else {
			status = "error"
		}
	}
	return
}

// Solve races the solvers on a query. In confirm mode all solvers are run to
// completion and disagreements are reported as status "disagree".
func Solve(query string, timeoutS int, confirm bool, tag string) SolverResult {
	return SolveWithQF(query, "", timeoutS, confirm, tag)
}

// SolveWithQF additionally races z3 on a quantifier-free weakening of the query (the
// quantified hypotheses are dropped, their goal-directed instances kept; logic QF_AUFBV,
// whose bit-vector tactic decides index arithmetic that the generic core does not).
// Only an `unsat` answer of that run counts: fewer hypotheses prove no less safely.
func SolveWithQF(query, qf string, timeoutS int, confirm bool, tag string) SolverResult {
	f, err := os.CreateTemp(workDir(), "q-*.smt2")
	if err != nil {
		return SolverResult{Status: "error", Raw: err.Error()}
	}
	name := f.Name()
	f.WriteString(query)
	f.Close()
	defer os.Remove(name)

	// model file: same query with (get-model) appended, only run on demand.
	type ans struct {
		solver, status, out string
		secs            float64
	}
	ctx, cancel := context.WithCancel(context.Background())
	defer cancel()
	ch := make(chan ans, len(solvers)+2)
	var wg sync.WaitGroup
	for _, sp := range solvers {
		wg.Add(1)
		go func(sp solverSpec) {
			defer wg.Done()
			st, out, secs := runOne(ctx, sp, name, timeoutS)
			ch <- ans{sp.name, st, out, secs}
		}(sp)
	}
	if qf != "" {
		qfFile, err := os.CreateTemp(workDir(), "qf-*.smt2")
		if err == nil {
			qfName := qfFile.Name()
			qfFile.WriteString(qf)
			qfFile.Close()
			defer os.Remove(qfName)
			for _, sp := range []solverSpec{solvers[0], solvers[2]} {
				wg.Add(1)
				go func(sp solverSpec) {
					defer wg.Done()
					st, out, secs := runOne(ctx, sp, qfName, timeoutS)
					if st != "unsat" {
						st, out = "cancelled", "" // a weakened query that is not refuted says nothing
					}
					ch <- ans{sp.name + "-qf", st, out, secs}
				}(sp)
			}
		}
	}
	go func() { wg.Wait(); close(ch) }()
	res := SolverResult{Status: "unknown", All: map[string]string{}}
	var total float64
	for a := range ch {
		res.All[a.solver] = a.status
		if a.status == "cancelled" {
			continue
		}
		total += a.secs
		definite := a.status == "unsat" || a.status == "sat"
		if definite {
			if res.Status == "unsat" || res.Status == "sat" {
				if res.Status != a.status {
					res.Status = "disagree"
					res.Raw += fmt.Sprintf("\n%s says %s", a.solver, a.status)
				}
				continue
			}
			res.Status = a.status
			res.Solver = a.solver
			res.Secs = a.secs
			res.Raw = a.out
			if !confirm {
				cancel()
			}
		} else if res.Status != "unsat" && res.Status != "sat" && res.Status != "disagree" {
			if a.status == "timeout" && res.Status == "unknown" && res.Solver != "" {
				// keep unknown
			} else {
				res.Status = a.status
				res.Solver = a.solver
			}
			res.Raw += fmt.Sprintf("\n[%s] %s", a.solver, strings.TrimSpace(a.out))
			if res.Secs < a.secs {
				res.Secs = a.secs
			}
		}
	}
	if res.Status == "sat" {
		res.Model = getModel(query, res.Solver, timeoutS)
	}
	return res
}

func getModel(query, solver string, timeoutS int) string {
	f, err := os.CreateTemp(workDir(), "m-*.smt2")
	if err != nil {
		return ""
	}
	name := f.Name()
	f.WriteString(query + "(get-model)\n")
	f.Close()
	defer os.Remove(name)
	for _, sp := range solvers {
		if sp.name == solver {
			_, out, _ := runOne(context.Background(), sp, name, timeoutS)
			return out
		}
	}
	return ""
}

var workDirOnce sync.Once
var workDirPath string

func workDir() string {
	workDirOnce.Do(func() {
		base := os.Getenv("GOCV_WORK")
		if base == "" {
			base = "/verif/.work"
		}
		os.MkdirAll(base, 0o755)
		d, err := os.MkdirTemp(base, "run-")
		if err != nil {
			panic(err)
		}
		workDirPath = d
	})
	return workDirPath
}

func cleanupWork() {
	if workDirPath != "" {
		os.RemoveAll(workDirPath)
	}
}

// ---------- model parsing (define-fun name () sort value) ----------

type Model map[string]string

func parseModel(s string) Model {
	m := Model{}
	toks := tokenize(s)
	// find sequences: ( define-fun NAME ( ) SORT VALUE )
	for i := 0; i+4 < len(toks); i++ {
		if toks[i] == "(" && toks[i+1] == "define-fun" {
			name := toks[i+2]
			j := i + 3
			// args list
			if toks[j] != "(" {
				continue
			}
			depth := 0
			k := j
			for ; k < len(toks); k++ {
				if toks[k] == "(" {
					depth++
				} else if toks[k] == ")" {
					depth--
					if depth == 0 {
						break
					}
				}
			}
			if k != j+1 { // has arguments: skip functions
				continue
			}
			k++
			// sort
			k = skipSexp(toks, k)
			// value
			e := skipSexp(toks, k)
			m[strings.Trim(name, "|")] = strings.Join(toks[k:e], " ")
		}
	}
	return m
}

func skipSexp(toks []string, i int) int {
	if i >= len(toks) {
		return i
	}
	if toks[i] != "(" {
		return i + 1
	}
	d := 0
	for ; i < len(toks); i++ {
		if toks[i] == "(" {
			d++
		} else if toks[i] == ")" {
			d--
			if d == 0 {
				return i + 1
			}
		}
	}
	return i
}

func tokenize(s string) []string {
	var toks []string
	i := 0
	for i < len(s) {
		c := s[i]
		switch {
		case c == '(' || c == ')':
			toks = append(toks, string(c))
			i++
		case c == ' ' || c == '\n' || c == '\t' || c == '\r':
			i++
		case c == '|':
			j := strings.IndexByte(s[i+1:], '|')
			if j < 0 {
				j = len(s) - i - 1
			}
			toks = append(toks, s[i:i+j+2])
			i += j + 2
		case c == '"':
			j := i + 1
			for j < len(s) && s[j] != '"' {
				j++
			}
			toks = append(toks, s[i:min(j+1, len(s))])
			i = j + 1
		case c == ';':
			for i < len(s) && s[i] != '\n' {
				i++
			}
		default:
			j := i
			for j < len(s) && !strings.ContainsRune("() \n\t\r", rune(s[j])) {
				j++
			}
			toks = append(toks, s[i:j])
			i = j
		}
	}
	return toks
}

// bvValue parses #x.. / #b.. / (_ bvN w) model values.
func bvValue(v string) (uint64, bool) {
	v = strings.TrimSpace(v)
	var x uint64
	if strings.HasPrefix(v, "#x") {
		if _, err := fmt.Sscanf(v[2:], "%x", &x); err == nil {
			return x, true
		}
	}
	if strings.HasPrefix(v, "#b") {
		if _, err := fmt.Sscanf(v[2:], "%b", &x); err == nil {
			return x, true
		}
	}
	if strings.HasPrefix(v, "( _ bv") {
		if _, err := fmt.Sscanf(v, "( _ bv%d", &x); err == nil {
			return x, true
		}
	}
	return 0, false
}

func sortedKeys[V any](m map[string]V) []string {
	ks := make([]string, 0, len(m))
	for k := range m {
		ks = append(ks, k)
	}
	sort.Strings(ks)
	return ks
}
