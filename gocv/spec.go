package main

// Evaluation of specification expressions into SMT terms.

import (
	"reflect"
	"regexp"
	"hash/fnv"
	"golang.org/x/tools/go/ssa"
	"fmt"
	"go/ast"
	"go/constant"
	"go/token"
	"go/types"
	"strconv"
	"strings"
)

type specCtx struct {
	x    *Exec
	pkg  *types.Package
	env  map[string]Val
	st   *State
	old  *State
	errs *[]string
	wantResult int
	fr   *Frame
}

func (c *specCtx) fail(format string, a ...any) Val {
	m := fmt.Sprintf(format, a...)
	c.x.unsupported("spec: %s", m)
	return boolVal(c.x.smt.Fresh("specerr", SBool))
}

func (x *Exec) evalSpecBool(fr *Frame, st, old *State, n *SpecNode, extra map[string]Val) (goal string) {
	// a clause that cannot be evaluated on the current code (e.g. a name now denotes a value of
	// another shape) is an undischargeable obligation, not a crash of the verifier
	defer func() {
		if r := recover(); r != nil {
			x.unsupported("spec: clause %q cannot be evaluated on this code: %v", n.Text, r)
			goal = x.smt.Fresh("specerr", SBool)
		}
	}()
	env := map[string]Val{}
	var pkg *types.Package
	if fr != nil {
		for k, v := range fr.params {
			env[k] = v
		}
		if fr.fn.Pkg != nil {
			pkg = fr.fn.Pkg.Pkg
		} else if fr.fn.Parent() != nil && fr.fn.Parent().Pkg != nil {
			pkg = fr.fn.Parent().Pkg.Pkg
		}
		// named SSA values visible at loop heads / returns (locals by source name)
		for k, v := range fr.locals(x, st) {
			if _, ok := env[k]; !ok {
				env[k] = v
			}
		}
	}
	for k, v := range extra {
		env[k] = v
	}
	if fr != nil {
		x.aliasEnv(fr.fn, env)
	}
	if old == nil {
		old = st
	}
	c := &specCtx{x: x, pkg: pkg, env: env, st: st, old: old, fr: fr}
	v := c.node(n)
	if len(v.L) != 1 {
		return c.fail("clause is not boolean: %s", n.Text).L[0]
	}
	return v.L[0]
}

func (c *specCtx) node(n *SpecNode) Val {
	switch n.Op {
	case "impl":
		return boolVal(implies(c.node(n.A).S(), c.node(n.B).S()))
	case "iff":
		return boolVal(eq(c.node(n.A).S(), c.node(n.B).S()))
	case "forall", "exists":
		t := specType(n.VarT)
		if t == nil {
			return c.fail("unknown quantifier type %s", n.VarT)
		}
		c.x.smt.fresh++
		qv := fmt.Sprintf("q!%s!%d", n.Var, c.x.smt.fresh)
		saved, had := c.env[n.Var]
		c.env[n.Var] = Val{T: t, L: []string{qv}}
		c.x.quantDepth++
		body := c.node(n.A).S()
		c.x.quantDepth--
		// canonical bound-variable name: alpha-equivalent quantified formulas over the same terms
		// become syntactically identical, so a fact `r == (exists k. P)` assumed from a contract
		// matches a goal `(exists k. P)` propositionally
		if canon := canonicalBound(n.Var, qv, body); canon != qv {
			body = strings.ReplaceAll(body, qv, canon)
			qv = canon
		}
		q := fmt.Sprintf("(%s ((%s %s)) %s)", n.Op, qv, scalarSort(t), body)
		// (exists k. P(k)) is equivalent to P(c1) || ... || (exists k. P(k)) for any terms ci:
		// offer the range-loop indices in scope as witnesses so that solvers need not guess them
		if n.Op == "exists" && c.fr != nil && c.x.quantDepth == 0 && bvWidth(scalarSort(t)) == 64 {
			var alts []string
			for _, cand := range c.fr.indexCandidates() {
				c.env[n.Var] = Val{T: t, L: []string{cand}}
				c.x.quantDepth++
				alts = append(alts, c.node(n.A).S())
				c.x.quantDepth--
			}
			if len(alts) > 0 {
				q = or(append(alts, q)...)
			}
		}
		if had {
			c.env[n.Var] = saved
		} else {
			delete(c.env, n.Var)
		}
		return boolVal(q)
	}
	saved := map[string]*SpecNode{}
	_ = saved
	return c.expr(n.Go, n)
}

func specType(name string) types.Type {
	switch name {
	case "int":
		return types.Typ[types.Int]
	case "int64":
		return types.Typ[types.Int64]
	case "uint64":
		return types.Typ[types.Uint64]
	case "uint32":
		return types.Typ[types.Uint32]
	case "int32":
		return types.Typ[types.Int32]
	case "uint16":
		return types.Typ[types.Uint16]
	case "uint8":
		return types.Typ[types.Uint8]
	case "byte":
		return types.Universe.Lookup("byte").Type()
	case "bool":
		return types.Typ[types.Bool]
	case "string":
		return types.Typ[types.String]
	case "ref":
		return types.NewPointer(types.NewStruct(nil, nil))
	case "iface", "any":
		return types.NewInterfaceType(nil, nil)
	case "uint":
		return types.Typ[types.Uint]
	case "bytes":
		return bytesType
	}
	return nil
}

var bytesType = types.NewSlice(types.Universe.Lookup("byte").Type())

func untyped(v constant.Value) Val {
	return Val{T: types.Typ[types.UntypedInt], Const: v}
}

// coerce turns an untyped constant into a value of type t.
func (c *specCtx) coerce(v Val, t types.Type) Val {
	if v.Const == nil {
		return v
	}
	if isInteger(t) {
		w := bvWidth(scalarSort(t))
		var bits uint64
		if i, ok := constant.Int64Val(constant.ToInt(v.Const)); ok {
			bits = uint64(i)
		} else if u, ok := constant.Uint64Val(constant.ToInt(v.Const)); ok {
			bits = u
		}
		return Val{T: t, L: []string{bvLit(bits, w)}}
	}
	return c.fail("cannot use constant %v as %v", v.Const, t)
}

func (c *specCtx) concrete(v Val) Val {
	if v.Const != nil {
		return c.coerce(v, types.Typ[types.Int])
	}
	return v
}

// nameClosed introduces definitions for long leaf terms that do not mention a
// bound variable, so that quantified formulas stay small.
func (c *specCtx) nameClosed(v Val) Val {
	if v.Const != nil {
		return v
	}
	ls := leavesOf(v.T)
	if len(ls) != len(v.L) {
		return v
	}
	out := v
	out.L = append([]string{}, v.L...)
	for i, t := range out.L {
		if len(t) > 120 && !strings.Contains(t, "q!") {
			out.L[i] = c.x.smt.Name("sv", ls[i].Sort, t)
		}
	}
	return out
}

func (c *specCtx) expr(e ast.Expr, n *SpecNode) Val {
	return c.nameClosed(c.expr0(e, n))
}

func (c *specCtx) expr0(e ast.Expr, n *SpecNode) Val {
	switch t := e.(type) {
	case *ast.ParenExpr:
		return c.expr(t.X, n)
	case *ast.Ident:
		return c.ident(t.Name, n)
	case *ast.BasicLit:
		switch t.Kind {
		case token.INT:
			return untyped(constant.MakeFromLiteral(t.Value, token.INT, 0))
		case token.CHAR:
			return untyped(constant.ToInt(constant.MakeFromLiteral(t.Value, token.CHAR, 0)))
		case token.STRING:
			s, _ := strconv.Unquote(t.Value)
			return Val{T: types.Typ[types.String], L: []string{c.x.strLit(s)}}
		}
		return c.fail("literal %s", t.Value)
	case *ast.UnaryExpr:
		v := c.expr(t.X, n)
		switch t.Op {
		case token.NOT:
			return boolVal(not(v.S()))
		case token.SUB:
			if v.Const != nil {
				return untyped(constant.UnaryOp(token.SUB, v.Const, 0))
			}
			return Val{T: v.T, L: []string{app("bvneg", v.S())}}
		case token.XOR:
			if v.Const != nil {
				return untyped(constant.UnaryOp(token.XOR, v.Const, 0))
			}
			return Val{T: v.T, L: []string{app("bvnot", v.S())}}
		case token.AND:
			return c.addr(t.X, n)
		}
		return c.fail("unary %v", t.Op)
	case *ast.StarExpr:
		p := c.expr(t.X, n)
		pt, ok := p.T.Underlying().(*types.Pointer)
		if !ok {
			return c.fail("deref of non-pointer")
		}
		return c.x.loadVal(c.st, p, pt.Elem())
	case *ast.BinaryExpr:
		return c.binary(t, n)
	case *ast.SelectorExpr:
		return c.selector(t, n)
	case *ast.IndexExpr:
		xv := c.expr(t.X, n)
		iv := c.expr(t.Index, n)
		switch u := xv.T.Underlying().(type) {
		case *types.Slice:
			idx := to64(c.coerceInt(iv))
			p := Val{T: types.NewPointer(u.Elem()), L: []string{xv.sRef()}, PtrPrefix: "arr." + elemPrefix(u.Elem()), PtrIndex: app("bvadd", xv.sOff(), idx)}
			return c.x.loadVal(c.st, p, u.Elem())
		case *types.Basic:
			if isString(xv.T) {
				return Val{T: types.Typ[types.Uint8], L: []string{app("sbyte", xv.S(), to64(c.coerceInt(iv)))}}
			}
		case *types.Map:
			iv = c.coerce(iv, u.Key())
			v, _ := c.x.mapLoad(c.st, xv, iv)
			return v
		case *types.Pointer:
			if at, ok := u.Elem().Underlying().(*types.Array); ok {
				p := Val{T: types.NewPointer(at.Elem()), L: []string{xv.L[0]}, PtrPrefix: "arr." + elemPrefix(at.Elem()), PtrIndex: to64(c.coerceInt(iv))}
				return c.x.loadVal(c.st, p, at.Elem())
			}
		}
		return c.fail("index of %v", xv.T)
	case *ast.SliceExpr:
		xv := c.expr(t.X, n)
		if !isSlice(xv.T) {
			return c.fail("slice expression on %v", xv.T)
		}
		lo, hi := bvLit(0, 64), xv.sLen()
		if t.Low != nil {
			lo = to64(c.coerceInt(c.expr(t.Low, n)))
		}
		if t.High != nil {
			hi = to64(c.coerceInt(c.expr(t.High, n)))
		}
		return Val{T: xv.T, L: []string{xv.sRef(), app("bvadd", xv.sOff(), lo), app("bvsub", hi, lo), app("bvsub", xv.sCap(), lo)}}
	case *ast.CallExpr:
		return c.call(t, n)
	}
	return c.fail("expression %T", e)
}

func (c *specCtx) coerceInt(v Val) Val {
	if v.Const != nil {
		return c.coerce(v, types.Typ[types.Int])
	}
	return v
}

func (c *specCtx) ident(name string, n *SpecNode) Val {
	switch name {
	case "true":
		return boolVal("true")
	case "false":
		return boolVal("false")
	case "nil":
		return Val{T: types.Typ[types.UntypedNil], L: []string{"nil"}}
	}
	if n != nil && n.Subs != nil {
		if sub, ok := n.Subs[name]; ok {
			return c.node(sub)
		}
	}
	if strings.HasPrefix(name, "ghost__") {
		g := name[7:]
		if v, ok := c.st.ghost[g]; ok {
			return v
		}
		return c.fail("unknown ghost variable #%s", g)
	}
	if v, ok := c.env[name]; ok {
		return v
	}
	if c.pkg != nil {
		if obj := c.pkg.Scope().Lookup(name); obj != nil {
			return c.object(obj)
		}
	}
	if t := specType(name); t != nil {
		return Val{T: t, L: []string{"<type>"}}
	}
	return c.fail("unknown identifier %s", name)
}

func (c *specCtx) object(obj types.Object) Val {
	switch o := obj.(type) {
	case *types.Const:
		if isString(o.Type()) {
			return Val{T: types.Default(o.Type()), L: []string{c.x.strLit(constant.StringVal(o.Val()))}}
		}
		if isBool(o.Type()) {
			if constant.BoolVal(o.Val()) {
				return boolVal("true")
			}
			return boolVal("false")
		}
		if b, ok := o.Type().Underlying().(*types.Basic); ok && b.Info()&types.IsUntyped != 0 {
			return untyped(o.Val())
		}
		return c.coerce(untyped(o.Val()), o.Type())
	case *types.Var:
		prefix := "global." + shortPkg(o.Pkg().Path()) + "." + o.Name()
		p := Val{T: types.NewPointer(o.Type()), L: []string{"#x00000001"}, PtrPrefix: prefix}
		return c.x.loadVal(c.st, p, o.Type())
	case *types.Func:
		if f := c.x.prog.ssa.FuncValue(o); f != nil {
			return Val{T: o.Type(), L: []string{c.x.fnConst(f)}, Fn: f}
		}
	case *types.TypeName:
		return Val{T: o.Type(), L: []string{"<type>"}}
	}
	return c.fail("cannot use object %v", obj)
}

func (c *specCtx) selector(t *ast.SelectorExpr, n *SpecNode) Val {
	// package-qualified name?
	if id, ok := t.X.(*ast.Ident); ok {
		if _, bound := c.env[id.Name]; !bound && c.pkg != nil {
			if c.pkg.Scope().Lookup(id.Name) == nil {
				for _, imp := range c.x.prog.allPkgs {
					if imp.Name() == id.Name || imp.Path() == id.Name {
						if obj := imp.Scope().Lookup(t.Sel.Name); obj != nil {
							return c.object(obj)
						}
					}
				}
			}
		}
	}
	xv := c.expr(t.X, n)
	return c.fieldOf(xv, t.Sel.Name)
}

func (c *specCtx) fieldOf(xv Val, name string) Val {
	tt := xv.T
	if p, ok := tt.Underlying().(*types.Pointer); ok {
		st, ok := p.Elem().Underlying().(*types.Struct)
		if !ok {
			return c.fail("selector .%s on pointer to %v", name, p.Elem())
		}
		name = c.x.prog.fieldName(p.Elem(), name)
		for i := 0; i < st.NumFields(); i++ {
			if st.Field(i).Name() == name {
				fp := Val{T: types.NewPointer(st.Field(i).Type()), L: xv.L, PtrPrefix: xv.ptrPrefixOr() + "." + name, PtrIndex: xv.PtrIndex}
				return c.x.loadVal(c.st, fp, st.Field(i).Type())
			}
		}
		return c.fail("no field %s in %v", name, p.Elem())
	}
	if st, ok := tt.Underlying().(*types.Struct); ok {
		name = c.x.prog.fieldName(tt, name)
		for i := 0; i < st.NumFields(); i++ {
			if st.Field(i).Name() == name {
				return xv.field(i)
			}
		}
		return c.fail("no field %s in %v", name, tt)
	}
	if isInterface(tt) && xv.Dyn != nil {
		return c.fieldOf(*xv.Dyn, name)
	}
	return c.fail("selector .%s on %v", name, tt)
}

// addr evaluates &expr to a pointer value (used for assigns targets).
func (c *specCtx) addr(e ast.Expr, n *SpecNode) Val {
	switch t := e.(type) {
	case *ast.ParenExpr:
		return c.addr(t.X, n)
	case *ast.SelectorExpr:
		xv := c.expr(t.X, n)
		if p, ok := xv.T.Underlying().(*types.Pointer); ok {
			if st, ok := p.Elem().Underlying().(*types.Struct); ok {
				fname := c.x.prog.fieldName(p.Elem(), t.Sel.Name)
				for i := 0; i < st.NumFields(); i++ {
					if st.Field(i).Name() == fname {
						return Val{T: types.NewPointer(st.Field(i).Type()), L: xv.L, PtrPrefix: xv.ptrPrefixOr() + "." + fname, PtrIndex: xv.PtrIndex}
					}
				}
			}
		}
	case *ast.StarExpr:
		return c.expr(t.X, n)
	case *ast.Ident:
		if c.pkg != nil {
			if obj, ok := c.pkg.Scope().Lookup(t.Name).(*types.Var); ok {
				return Val{T: types.NewPointer(obj.Type()), L: []string{"#x00000001"}, PtrPrefix: "global." + shortPkg(obj.Pkg().Path()) + "." + obj.Name()}
			}
		}
	case *ast.IndexExpr:
		xv := c.expr(t.X, n)
		if u, ok := xv.T.Underlying().(*types.Slice); ok {
			idx := to64(c.coerceInt(c.expr(t.Index, n)))
			return Val{T: types.NewPointer(u.Elem()), L: []string{xv.sRef()}, PtrPrefix: "arr." + elemPrefix(u.Elem()), PtrIndex: app("bvadd", xv.sOff(), idx)}
		}
	}
	return c.fail("cannot take address of %T", e)
}

func (c *specCtx) binary(t *ast.BinaryExpr, n *SpecNode) Val {
	a := c.expr(t.X, n)
	switch t.Op {
	case token.LAND:
		return boolVal(and(a.S(), c.expr(t.Y, n).S()))
	case token.LOR:
		return boolVal(or(a.S(), c.expr(t.Y, n).S()))
	}
	b := c.expr(t.Y, n)
	if a.Const != nil && b.Const != nil {
		switch t.Op {
		case token.EQL, token.NEQ, token.LSS, token.LEQ, token.GTR, token.GEQ:
			if constant.Compare(a.Const, t.Op, b.Const) {
				return boolVal("true")
			}
			return boolVal("false")
		case token.SHL, token.SHR:
			s, _ := constant.Uint64Val(b.Const)
			return untyped(constant.Shift(a.Const, t.Op, uint(s)))
		case token.QUO:
			return untyped(constant.BinaryOp(a.Const, token.QUO_ASSIGN, b.Const))
		}
		return untyped(constant.BinaryOp(a.Const, t.Op, b.Const))
	}
	// nil comparisons
	isNil := func(v Val) bool { return len(v.L) == 1 && v.L[0] == "nil" }
	if isNil(a) || isNil(b) {
		o := a
		if isNil(a) {
			o = b
		}
		r := not(nonNilTerm(o))
		if t.Op == token.NEQ {
			r = not(r)
		}
		return boolVal(r)
	}
	if a.Const != nil {
		if t.Op == token.SHL || t.Op == token.SHR {
			a = c.coerce(a, types.Typ[types.Int])
		} else {
			a = c.coerce(a, b.T)
		}
	}
	if b.Const != nil {
		if t.Op == token.SHL || t.Op == token.SHR {
			b = c.coerce(b, types.Typ[types.Uint])
		} else {
			b = c.coerce(b, a.T)
		}
	}
	rt := a.T
	switch t.Op {
	case token.EQL, token.NEQ, token.LSS, token.LEQ, token.GTR, token.GEQ:
		rt = types.Typ[types.Bool]
		if isInteger(a.T) && isInteger(b.T) && scalarSort(a.T) != scalarSort(b.T) {
			return c.fail("comparison of different integer widths (%v vs %v) in %q: add a conversion", a.T, b.T, n.Text)
		}
		if isSlice(a.T) && isSlice(b.T) {
			// slice equality in specs: same header (identity)
			var es []string
			for i := range a.L {
				es = append(es, eq(a.L[i], b.L[i]))
			}
			r := and(es...)
			if t.Op == token.NEQ {
				r = not(r)
			}
			return boolVal(r)
		}
	default:
		if isInteger(a.T) && isInteger(b.T) && scalarSort(a.T) != scalarSort(b.T) && t.Op != token.SHL && t.Op != token.SHR {
			return c.fail("arithmetic on different integer widths (%v vs %v) in %q: add a conversion", a.T, b.T, n.Text)
		}
	}
	return c.x.binop(nil, c.st, t.Op, a, b, rt, nil)
}

func (c *specCtx) call(t *ast.CallExpr, n *SpecNode) Val {
	fname := ""
	switch f := t.Fun.(type) {
	case *ast.Ident:
		fname = f.Name
	case *ast.SelectorExpr:
		if id, ok := f.X.(*ast.Ident); ok {
			fname = id.Name + "." + f.Sel.Name
		}
	case *ast.ParenExpr:
	}
	arg := func(i int) Val { return c.expr(t.Args[i], n) }
	if fname == "nth" && len(t.Args) == 2 {
		// nth(i, f(args)): i-th result of a pure library call with several results
		iv := arg(0)
		k := 0
		if iv.Const != nil {
			if kk, ok := constant.Int64Val(iv.Const); ok {
				k = int(kk)
			}
		}
		c.wantResult = k
		v := c.expr(t.Args[1], n)
		c.wantResult = 0
		return v
	}
	switch fname {
	case "old":
		saved := c.st
		c.st = c.old
		v := arg(0)
		c.st = saved
		return v
	case "len":
		v := arg(0)
		switch {
		case isSlice(v.T):
			return Val{T: types.Typ[types.Int], L: []string{v.sLen()}}
		case isString(v.T):
			return Val{T: types.Typ[types.Int], L: []string{app("slen", v.S())}}
		}
		return c.fail("len of %v", v.T)
	case "cap":
		v := arg(0)
		if isSlice(v.T) {
			return Val{T: types.Typ[types.Int], L: []string{v.sCap()}}
		}
		return c.fail("cap of %v", v.T)
	case "ite":
		cnd, a, b := arg(0), arg(1), arg(2)
		if len(a.L) == 1 && a.L[0] == "nil" && b.T != nil {
			a = zeroVal(b.T)
		}
		if len(b.L) == 1 && b.L[0] == "nil" && a.T != nil {
			b = zeroVal(a.T)
		}
		if a.Const != nil && b.Const == nil {
			a = c.coerce(a, b.T)
		}
		if b.Const != nil && a.Const == nil {
			b = c.coerce(b, a.T)
		}
		a, b = c.concrete(a), c.concrete(b)
		r := Val{T: a.T}
		for i := range a.L {
			r.L = append(r.L, ite(cnd.S(), a.L[i], b.L[i]))
		}
		return r
	case "le16", "le32", "be32", "le64":
		bs := arg(0)
		off := to64(c.coerceInt(arg(1)))
		return c.leRead(bs, off, fname)
	case "bytesEq":
		// bytesEq(a, b): same length and same contents
		a, b := arg(0), arg(1)
		return boolVal(c.bytesEq(a, b))
	case "matches":
		// matches(p, s, c0[, n]): the first n (default len(p)) bytes of slice p equal string s from
		// position c0. Quantified over the raw array index so that any access to p's memory triggers it.
		p, s, c0 := arg(0), arg(1), to64(c.coerceInt(arg(2)))
		n := p.sLen()
		if len(t.Args) > 3 {
			n = to64(c.coerceInt(arg(3)))
		}
		c.x.regHeap("arr.bv8", SBV8, SBV64)
		arr := sel(c.x.heapArr(c.st, "arr.bv8"), p.sRef())
		if !strings.Contains(arr, "q!") && len(arr) > 40 {
			arr = c.x.smt.Name("marr", "(Array "+SBV64+" "+SBV8+")", arr)
		}
		c.x.smt.fresh++
		q := fmt.Sprintf("q!m!%d", c.x.smt.fresh)
		inRange := and(app("bvule", p.sOff(), q), app("bvult", q, app("bvadd", p.sOff(), n)))
		body := eq(sel(arr, q), app("sbyte", s.S(), app("bvadd", c0, app("bvsub", q, p.sOff()))))
		return boolVal(fmt.Sprintf("(forall ((%s %s)) (! (=> %s %s) :pattern ((select %s %s))))", q, SBV64, inRange, body, arr, q))
	case "isPrefix":
		a, b := arg(0), arg(1)
		return boolVal(c.isPrefix(a, b))
	case "fresh":
		// fresh(p): reference allocated during this call
		v := arg(0)
		r := v.L[0]
		if isInterface(v.T) {
			// interface holding a pointer: the object it points to
			r = app("iref", v.L[0])
		}
		// allocated after the old state and before the current one
		return boolVal(and(app("bvuge", r, c.old.alloc), app("bvult", r, c.st.alloc)))
	case "fnIs":
		// fnIs(f, "pkg.Func"): the function value is (a closure of) this function;
		// bound methods are "pkg.(*T).M$bound". Decided symbolically through fcode.
		lit, ok := t.Args[1].(*ast.BasicLit)
		if !ok {
			return c.fail("fnIs: second argument must be a string literal")
		}
		want, _ := strconv.Unquote(lit.Value)
		if !c.x.prog.hasFuncRel(want) {
			return c.fail("fnIs: no function %q in the program", want)
		}
		v := arg(0)
		if scalarSort(v.T) != SFn || len(v.L) != 1 {
			return c.fail("fnIs: %q is not a function value", n.Text)
		}
		return boolVal(eq(app("fcode", v.L[0]), fnCodeOf(want)))
	case "fnBind":
		// fnBind(f, i): the i-th captured variable of a closure, when it is itself a function value (i < 3)
		v := arg(0)
		iv := arg(1)
		k := -1
		if iv.Const != nil {
			if kk, ok := constant.Int64Val(iv.Const); ok {
				k = int(kk)
			}
		}
		if scalarSort(v.T) != SFn || len(v.L) != 1 || k < 0 || k > 2 {
			return c.fail("fnBind: unsupported in %q", n.Text)
		}
		return Val{T: types.NewSignatureType(nil, nil, nil, nil, nil, false), L: []string{app(fmt.Sprintf("fbindfn%d", k), v.L[0])}}
	case "captured":
		// captured(f, "pkg.Func$1", T): the variable of function type T captured by closures of
		// the named function, read from closure value f (meaningful where fnIs(f, "pkg.Func$1") holds).
		// The captured variable is found by its type, which must be unique among the free variables.
		lit, ok := t.Args[1].(*ast.BasicLit)
		if !ok || len(t.Args) != 3 {
			return c.fail("captured(f, \"closure\", T) expected in %q", n.Text)
		}
		want, _ := strconv.Unquote(lit.Value)
		var target *ssa.Function
		for _, f := range c.x.prog.allFuncsByRel(want) {
			target = f
		}
		if target == nil {
			return c.fail("captured: no function %q", want)
		}
		v := arg(0)
		ft := arg(2).T
		if scalarSort(v.T) != SFn || len(v.L) != 1 || ft == nil {
			return c.fail("captured: unsupported arguments in %q", n.Text)
		}
		idx, byRef := -1, false
		for k, fv := range target.FreeVars {
			if types.Identical(fv.Type(), ft) {
				if idx >= 0 {
					return c.fail("captured: several captured variables of type %v in %s", ft, want)
				}
				idx, byRef = k, false
			}
			if pt, ok := fv.Type().Underlying().(*types.Pointer); ok && types.Identical(pt.Elem(), ft) {
				if idx >= 0 {
					return c.fail("captured: several captured variables of type %v in %s", ft, want)
				}
				idx, byRef = k, true
			}
		}
		if idx < 0 || idx > 2 {
			return c.fail("captured: no captured variable of type %v among the first three of %s", ft, want)
		}
		if !byRef {
			if scalarSort(ft) != SFn {
				return c.fail("captured: %v is captured by value and is not a function", ft)
			}
			return Val{T: ft, L: []string{app(fmt.Sprintf("fbindfn%d", idx), v.L[0])}}
		}
		cell := Val{T: types.NewPointer(ft), L: []string{app(fmt.Sprintf("fbindref%d", idx), v.L[0])}}
		return c.x.loadVal(c.st, cell, ft)
	case "fnBindCell":
		// fnBindCell(f, i): the function stored in the i-th captured variable of a closure
		// when the variable is captured by reference (i < 3)
		v := arg(0)
		iv := arg(1)
		k := -1
		if iv.Const != nil {
			if kk, ok := constant.Int64Val(iv.Const); ok {
				k = int(kk)
			}
		}
		if scalarSort(v.T) != SFn || len(v.L) != 1 || k < 0 || k > 2 {
			return c.fail("fnBindCell: unsupported in %q", n.Text)
		}
		var ft types.Type = types.NewSignatureType(nil, nil, nil, nil, nil, false)
		if len(t.Args) >= 3 {
			// fnBindCell(f, i, T): the captured variable has the named function type T
			ft = arg(2).T
			if ft == nil || scalarSort(ft) != SFn {
				return c.fail("fnBindCell: third argument must be a function type in %q", n.Text)
			}
		}
		cell := Val{T: types.NewPointer(ft), L: []string{app(fmt.Sprintf("fbindref%d", k), v.L[0])}}
		return c.x.loadVal(c.st, cell, ft)
	case "sameExcept":
		// sameExcept("pkg.Type.field", obj...): every object other than obj... has the same
		// value in that heap region as in the old state (frame condition for loop invariants)
		lit, ok := t.Args[0].(*ast.BasicLit)
		if !ok {
			return c.fail("sameExcept: first argument must be a string literal")
		}
		reg, _ := strconv.Unquote(lit.Value)
		reg = c.x.prog.fixRegion(reg)
		var bases []string
		for i := 1; i < len(t.Args); i++ {
			v := arg(i)
			if isInterface(v.T) {
				bases = append(bases, app("iref", v.L[0]))
			} else {
				bases = append(bases, v.L[0])
			}
		}
		var parts []string
		for _, hk := range sortedKeys(c.x.heapSort) {
			if !(hk == reg || strings.HasPrefix(hk, reg+".") || strings.HasPrefix(hk, reg+"#")) {
				continue
			}
			cur, old := c.x.heapArr(c.st, hk), c.x.heapArr(c.old, hk)
			if cur == old {
				continue
			}
			c.x.smt.fresh++
			q := fmt.Sprintf("q!f!%d", c.x.smt.fresh)
			var conds []string
			for _, b := range bases {
				conds = append(conds, not(eq(q, b)))
			}
			parts = append(parts, fmt.Sprintf("(forall ((%s %s)) (=> %s (= (select %s %s) (select %s %s))))", q, SRef, and(conds...), cur, q, old, q))
		}
		return boolVal(and(parts...))
	case "allocated":
		// allocated(p): reference exists in the current state (allocated before now)
		v := arg(0)
		if isInterface(v.T) {
			return boolVal(app("bvult", app("iref", v.L[0]), c.st.alloc))
		}
		return boolVal(app("bvult", v.L[0], c.st.alloc))
	case "structTag":
		// structTag(T, "Field", "key"): the struct tag value of the field as declared (a constant of the
		// program text: wire formats that reflection-driven codecs derive from tags are pinned this way)
		tv := arg(0)
		fl, ok1 := t.Args[1].(*ast.BasicLit)
		kl, ok2 := t.Args[2].(*ast.BasicLit)
		if !ok1 || !ok2 {
			return c.fail("structTag: field and key must be string literals")
		}
		field, _ := strconv.Unquote(fl.Value)
		key, _ := strconv.Unquote(kl.Value)
		stT, ok := tv.T.Underlying().(*types.Struct)
		if !ok {
			return c.fail("structTag: %s is not a struct type", tv.T)
		}
		for i := 0; i < stT.NumFields(); i++ {
			if stT.Field(i).Name() == field {
				return Val{T: types.Typ[types.String], L: []string{c.x.strLit(reflect.StructTag(stT.Tag(i)).Get(key))}}
			}
		}
		return c.fail("structTag: %s has no field %s", tv.T, field)
	case "typeIs":
		// typeIs(x, T): dynamic type of interface x is T
		v := arg(0)
		tv := arg(1)
		return boolVal(eq(app("ityp", v.S()), c.x.typeID(tv.T)))
	case "dyn":
		// dyn(x, T): payload of interface x viewed as T
		v := arg(0)
		tv := arg(1)
		return c.x.ifacePayload(c.st, v, tv.T)
	case "ptr":
		// ptr(T): pointer type constructor for use in typeIs/dyn
		tv := arg(0)
		return Val{T: types.NewPointer(tv.T), L: []string{"<type>"}}
	case "unchanged":
		// unchanged(e): value of e equals old(e)
		now := arg(0)
		saved := c.st
		c.st = c.old
		before := arg(0)
		c.st = saved
		var es []string
		for i := range now.L {
			es = append(es, eq(now.L[i], before.L[i]))
		}
		return boolVal(and(es...))
	case "mapHas":
		m, k := arg(0), arg(1)
		mt, ok := m.T.Underlying().(*types.Map)
		if !ok {
			return c.fail("mapHas on %v", m.T)
		}
		k = c.coerce(k, mt.Key())
		_, has := c.x.mapLoad(c.st, m, k)
		return boolVal(has)
	case "cacheTTL", "cacheLastSetTTL":
		cv := arg(0)
		reg := map[string]string{"cacheTTL": "gocache.defaultTTL", "cacheLastSetTTL": "gocache.lastSetTTL"}[fname]
		return Val{T: types.Typ[types.Int64], L: []string{c.x.heapRead(c.st, reg, SBV64, cv.L[0], "")}}
	case "cacheHas", "cacheVal":
		// contents of a go-cache object (model): cacheHas(c.cache, k), cacheVal(c.cache, k)
		cv, k := arg(0), arg(1)
		if fname == "cacheHas" {
			return boolVal(c.x.heapRead(c.st, "map:Str:gocache:has", SBool, cv.L[0], k.L[0]))
		}
		return Val{T: types.NewInterfaceType(nil, nil), L: []string{c.x.heapRead(c.st, "map:Str:gocache:val", SIface, cv.L[0], k.L[0])}}
	case "ctxval":
		// ctxval(ctx, key): value stored in a context.Context under key (model of context.WithValue)
		cv, k := arg(0), arg(1)
		if !isInterface(k.T) {
			k = c.x.makeIface(c.st, types.NewInterfaceType(nil, nil), k)
		}
		c.x.regHeap("ctx.vals", SIface, SIface)
		return Val{T: types.NewInterfaceType(nil, nil), L: []string{sel(sel(c.x.heapArr(c.st, "ctx.vals"), app("iref", cv.L[0])), k.L[0])}}
	case "reqctx":
		// reqctx(r): the context of an *http.Request (model field)
		r := arg(0)
		return Val{T: types.NewInterfaceType(nil, nil), L: []string{c.x.heapRead(c.st, "http.Request.ctx", SIface, r.L[0], "")}}
	case "box":
		// box(x): x converted to an interface value
		v := arg(0)
		if v.Const != nil {
			v = c.coerce(v, types.Typ[types.Int])
		}
		return c.x.makeIface(c.st, types.NewInterfaceType(nil, nil), v)
	case "buflen":
		// buflen(b): number of bytes held by a *bytes.Buffer (model field)
		b := arg(0)
		return Val{T: types.Typ[types.Int], L: []string{c.x.heapRead(c.st, "bytes.Buffer.len", SBV64, b.L[0], "")}}
	case "chanGotData":
		// chanGotData(ch): some value received from ch so far was non-nil (slice, pointer or interface elements)
		ch := arg(0)
		return boolVal(c.x.heapRead(c.st, "chan.gotdata", SBool, ch.L[0], ""))
	case "chanSent", "chanRecvd":
		ch := arg(0)
		reg := map[string]string{"chanSent": "chan.sent", "chanRecvd": "chan.recvd"}[fname]
		return Val{T: types.Typ[types.Int], L: []string{c.x.heapRead(c.st, reg, SBV64, ch.L[0], "")}}
	}
	// pure library functions: the same uninterpreted function the executor uses
	if sel, ok := t.Fun.(*ast.SelectorExpr); ok {
		if id, ok := sel.X.(*ast.Ident); ok {
			if _, bound := c.env[id.Name]; !bound {
				for _, imp := range c.x.prog.allPkgs {
					if imp.Name() != id.Name {
						continue
					}
					if obj, ok := imp.Scope().Lookup(sel.Sel.Name).(*types.Func); ok {
						if f := c.x.prog.ssa.FuncValue(obj); f != nil {
							if k, _ := externKind(f); k == "pure" {
								var args []Val
								want := c.wantResult // nth(i, f(args)) selects the i-th result of f, not of calls among its arguments
								c.wantResult = 0
								for i := range t.Args {
									a := arg(i)
									if a.Const != nil {
										a = c.coerce(a, f.Signature.Params().At(i).Type())
									}
									args = append(args, a)
								}
								c.wantResult = want
								rs := c.x.pureCall(c.st, f, f.Signature, args)
								if len(rs) > want {
									return rs[want]
								}
								if len(rs) >= 1 {
									return rs[0]
								}
							}
						}
					}
				}
			}
		}
	}
	if gm, ok := c.x.prog.contracts.GhostMaps[fname]; ok && len(t.Args) == 1 {
		k := arg(0)
		reg, _, vs := ghostMapRegion(gm)
		if len(k.L) == 1 && k.L[0] == "nil" {
			k = zeroVal(ghostType(gm.Key))
		}
		return Val{T: ghostType(gm.Val), L: []string{c.x.heapRead(c.st, reg, vs, "#x00000001", k.L[0])}}
	}
	if d, ok := c.x.prog.contracts.Defs[fname]; ok && d.Body != nil {
		// hygienic: the body sees only its own parameters (and package-level names)
		nenv := map[string]Val{}
		for i, pn := range d.Params {
			if i < len(t.Args) {
				nenv[pn] = arg(i)
			}
		}
		saved := c.env
		c.env = nenv
		r := c.node(d.Body)
		c.env = saved
		return r
	}
	// method calls on values: pure library methods only
	isValueRecv := fname == ""
	if sel, ok := t.Fun.(*ast.SelectorExpr); ok && !isValueRecv {
		if id, ok := sel.X.(*ast.Ident); ok {
			if _, bound := c.env[id.Name]; bound || strings.HasPrefix(id.Name, "ghost__") {
				isValueRecv = true
			}
		}
	}
	if sel, ok := t.Fun.(*ast.SelectorExpr); ok && isValueRecv {
		recv := c.expr(sel.X, n)
		if recv.T != nil {
			ms := c.x.prog.ssa.MethodSets.MethodSet(recv.T)
			for i := 0; i < ms.Len(); i++ {
				m := ms.At(i)
				if m.Obj().Name() != sel.Sel.Name {
					continue
				}
				if f := c.x.prog.ssa.MethodValue(m); f != nil {
					if k, _ := externKind(f); k == "pure" {
						args := []Val{recv}
						for i := range t.Args {
							a := arg(i)
							if a.Const != nil {
								a = c.coerce(a, f.Signature.Params().At(i).Type())
							}
							args = append(args, a)
						}
						rs := c.x.pureCall(c.st, f, f.Signature, args)
						if len(rs) > c.wantResult {
							return rs[c.wantResult]
						}
					}
				}
			}
		}
		return c.fail("method call %s in specification is not a pure library method", sel.Sel.Name)
	}
	// conversions T(x)
	if tt := specType(fname); tt != nil && len(t.Args) == 1 {
		v := arg(0)
		if v.Const != nil {
			return c.coerce(v, tt)
		}
		return c.x.doConvert(nil, c.st, v, tt)
	}
	// declared uninterpreted predicates / functions
	if p, ok := c.x.prog.contracts.Preds[fname]; ok {
		var args []string
		var sorts []string
		for i := range t.Args {
			at := specType(p.Args[min(i, len(p.Args)-1)])
			v := arg(i)
			if v.Const != nil && at != nil {
				v = c.coerce(v, at)
			}
			if len(v.L) != 1 {
				// composite args (slices): pass the reference and length
				args = append(args, v.L...)
				for _, l := range leavesOf(v.T) {
					sorts = append(sorts, l.Sort)
				}
				continue
			}
			if v.L[0] == "nil" && at != nil {
				v = zeroVal(at)
			}
			args = append(args, v.L[0])
			if at != nil {
				sorts = append(sorts, scalarSort(at))
			} else {
				sorts = append(sorts, scalarSort(v.T))
			}
		}
		rt := specType(p.Ret)
		if rt == nil {
			return c.fail("pred %s: unknown return type %s", fname, p.Ret)
		}
		c.x.smt.DeclareFun("P."+fname, sorts, scalarSort(rt))
		if len(args) == 0 {
			return Val{T: rt, L: []string{"P." + fname}}
		}
		return Val{T: rt, L: []string{app("P."+fname, args...)}}
	}
	// named types of the package as conversions
	if c.pkg != nil {
		if obj, ok := c.pkg.Scope().Lookup(fname).(*types.TypeName); ok && len(t.Args) == 1 {
			v := arg(0)
			if v.Const != nil {
				return c.coerce(v, obj.Type())
			}
			return c.x.doConvert(nil, c.st, v, obj.Type())
		}
	}
	return c.fail("unknown spec function %s", fname)
}

func (c *specCtx) byteAt(bs Val, idx string) string {
	if isString(bs.T) {
		return app("sbyte", bs.S(), idx)
	}
	c.x.regHeap("arr.bv8", SBV8, SBV64)
	return sel(sel(c.x.heapArr(c.st, "arr.bv8"), bs.sRef()), app("bvadd", bs.sOff(), idx))
}

func (c *specCtx) leRead(bs Val, off string, kind string) Val {
	b := func(i int) string { return c.byteAt(bs, app("bvadd", off, bvLit(uint64(i), 64))) }
	switch kind {
	case "le16":
		return Val{T: types.Typ[types.Uint16], L: []string{app("concat", b(1), b(0))}}
	case "le32":
		return Val{T: types.Typ[types.Uint32], L: []string{app("concat", b(3), app("concat", b(2), app("concat", b(1), b(0))))}}
	case "be32":
		return Val{T: types.Typ[types.Uint32], L: []string{app("concat", b(0), app("concat", b(1), app("concat", b(2), b(3))))}}
	}
	t := b(7)
	for i := 6; i >= 0; i-- {
		t = app("concat", t, b(i))
	}
	return Val{T: types.Typ[types.Uint64], L: []string{t}}
}

func (c *specCtx) bytesEq(a, b Val) string {
	c.x.smt.fresh++
	q := fmt.Sprintf("q!k!%d", c.x.smt.fresh)
	la, lb := c.lenOf(a), c.lenOf(b)
	body := implies(app("bvult", q, la), eq(c.byteAt(a, q), c.byteAt(b, q)))
	return and(eq(la, lb), fmt.Sprintf("(forall ((%s %s)) %s)", q, SBV64, body))
}

func (c *specCtx) isPrefix(a, b Val) string {
	c.x.smt.fresh++
	q := fmt.Sprintf("q!k!%d", c.x.smt.fresh)
	la, lb := c.lenOf(a), c.lenOf(b)
	body := implies(app("bvult", q, la), eq(c.byteAt(a, q), c.byteAt(b, q)))
	return and(app("bvule", la, lb), fmt.Sprintf("(forall ((%s %s)) %s)", q, SBV64, body))
}

func (c *specCtx) lenOf(v Val) string {
	if isString(v.T) {
		return app("slen", v.S())
	}
	return v.sLen()
}

var tempBound = regexp.MustCompile(`q![A-Za-z_][A-Za-z_0-9]*![0-9]+`)

func canonicalBound(v, temp, body string) string {
	h := fnv.New64a()
	h.Write([]byte(tempBound.ReplaceAllString(body, "?")))
	canon := fmt.Sprintf("q!%s!h%x", v, h.Sum64())
	if strings.Contains(body, canon) {
		return temp // would capture a nested binder of the same name
	}
	return canon
}

// aliasEnv binds the names recorded when the contracts were written (locals.lock) for
// locals, parameters, receivers, named results and captured variables that were merely
// renamed since: an old name that is no longer declared is bound to the value of the
// innermost declaration it was renamed to, in fn or in the functions enclosing it.
func (x *Exec) aliasEnv(fn *ssa.Function, env map[string]Val) {
	for f := fn; f != nil; f = f.Parent() {
		for oldName, cands := range x.prog.renamedLocals(f) {
			if _, have := env[oldName]; have {
				continue
			}
			for i := len(cands) - 1; i >= 0; i-- {
				if v, ok := env[cands[i]]; ok {
					env[oldName] = v
					break
				}
			}
		}
	}
}
