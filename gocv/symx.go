package main

// Symbolic execution of SSA functions into verification conditions.
// States are merged at CFG joins (passive form); loops are cut at invariants;
// calls are replaced by contracts, native models, inlined bodies or havoc.

import (
	"hash/fnv"
	"fmt"
	"os"
	"runtime/debug"
	"go/constant"
	"go/token"
	"go/types"
	"sort"
	"strings"

	"golang.org/x/tools/go/ssa"
)

type State struct {
	pc    string
	heap  map[string]string // region prefix -> current array term
	ghost map[string]Val
	alloc string // BV32 allocation counter
	dead  bool
	dirty map[string]bool // regions written at references that may predate the function
	pending map[string]bool // region prefixes havocked before their first use
}

func (s *State) clone() *State {
	n := &State{pc: s.pc, alloc: s.alloc, heap: make(map[string]string, len(s.heap)), ghost: make(map[string]Val, len(s.ghost)), dirty: make(map[string]bool, len(s.dirty))}
	for k := range s.dirty {
		n.dirty[k] = true
	}
	if len(s.pending) > 0 {
		n.pending = map[string]bool{}
		for k := range s.pending {
			n.pending[k] = true
		}
	}
	for k, v := range s.heap {
		n.heap[k] = v
	}
	for k, v := range s.ghost {
		n.ghost[k] = v
	}
	return n
}

type Cover struct {
	Name   string
	before string // site cover: path condition before the clause was assumed
	oblig  *Obligation // site cover: the obligation of the clause (the cover is only needed when it fails)
	Poison bool   // the clause contradicts a reachable state: everything after it would hold vacuously
	prefix int
	pc     string
	smt    *SMT
	Result *SolverResult
}

type Obligation struct {
	Name     string
	Kind     string // ensures | requires | inv.entry | inv.preserve | bounds | nil | assert | typeassert | div | panic | ...
	Tags     []string
	Func     string
	Pos      token.Position
	Site     string
	prefix   int
	pc       string
	goal     string
	Result   *SolverResult
	Wanted   []string          // terms whose values are requested for replay
	WantName map[string]string // term -> readable name
	smt      *SMT
	Note     string
	exec     *Exec
	frame    *Frame
	clause   *Clause
	retGhost map[string]Val // ghost state at the return this ensures obligation belongs to
}

type deferred struct {
	guard string
	call  *ssa.CallCommon
	instr ssa.Instruction
	args  []Val
	fnval Val
}

type namedDef struct {
	block  *ssa.BasicBlock
	val    Val
	isAddr bool
}

type Frame struct {
	fn      *ssa.Function
	vals    map[ssa.Value]Val
	depth   int
	defers  []deferred
	entry   *State // state at function entry (for old())
	results []Val  // merged results (for inlined calls)
	ctr     *Contract
	params  map[string]Val
	top     bool
	// for inlined calls: accumulated return states
	retStates []*State
	retVals   [][]Val
	site      string
	extras    map[ssa.Value][]Val
	rangeOf   map[*ssa.Range]Val
	static    map[string]Val
	named     map[string]Val
	namedAddr map[string]Val
	namedDefs map[string][]namedDef
	curBlock  *ssa.BasicBlock
	flowHook  func(from, to *ssa.BasicBlock, st *State) bool
	parent    *Frame
	panicStates []*State // states at calls that may panic, while a recovering defer is registered
}

type Exec struct {
	siteMatched map[*Clause]bool // site clauses that applied to at least one call
	borrowedLoop map[string]int // loops of inlined contract-less helpers -> loop ordinal in the enclosing contract
	declNames  map[*ssa.Function]map[string]bool
	panicMode  bool // deferred calls are being run because of a panic
	didRecover bool // recover() was evaluated in panic mode
	escaped    []*State // states in which the function under verification lets a panic escape (contract says maypanic)
	smt       *SMT
	prog      *Program
	obls      []*Obligation
	topFn     *ssa.Function
	topCtr    *Contract
	safety    bool // generate panic-freedom obligations
	safetyTag []string
	heapSort  map[string]string // prefix -> element sort
	heap2     map[string]string // prefix -> index sort for two-level regions (Ref -> idx -> elem), "" otherwise
	strLits   map[string]string
	strOrder  []string
	typeIDs   map[string]int
	fnConsts  map[*ssa.Function]string
	warnings  []string
	unsupp    []string
	epoch     int
	siteCount map[string]int
	static    map[string]Val  // Go-side knowledge about values stored into cells (closures, interface payloads)
	freshRefs map[string]bool // terms denoting references allocated by this function
	trusted   map[string]bool // externs / models / assumptions used
	inlined   map[string]bool
	noInline  bool
	topFrame     *Frame
	alloc0       string
	quantDepth   int
	covers       []*Cover
	wantLiveness bool
	livenessTag  []string
}

func NewExec(prog *Program) *Exec {
	return &Exec{smt: NewSMT(), prog: prog, heapSort: map[string]string{}, heap2: map[string]string{},
		strLits: map[string]string{}, typeIDs: map[string]int{}, fnConsts: map[*ssa.Function]string{},
		siteCount: map[string]int{}, freshRefs: map[string]bool{}, static: map[string]Val{}, trusted: map[string]bool{}, inlined: map[string]bool{}}
}

func (x *Exec) warn(format string, a ...any) {
	x.warnings = append(x.warnings, fmt.Sprintf(format, a...))
}

func (x *Exec) unsupported(format string, a ...any) {
	m := fmt.Sprintf(format, a...)
	for _, u := range x.unsupp {
		if u == m {
			return
		}
	}
	x.unsupp = append(x.unsupp, m)
}

// ---------- heap ----------

func (x *Exec) arraySort(prefix string) string {
	es := x.heapSort[prefix]
	if is := x.heap2[prefix]; is != "" {
		return "(Array " + SRef + " (Array " + is + " " + es + "))"
	}
	return "(Array " + SRef + " " + es + ")"
}

func (x *Exec) regHeap(prefix, sort string, two string) {
	if old, ok := x.heapSort[prefix]; ok {
		if old != sort || x.heap2[prefix] != two {
			x.unsupported("heap region %s used at two sorts (%s/%s)", prefix, old, sort)
		}
		return
	}
	x.heapSort[prefix] = sort
	x.heap2[prefix] = two
}

func (x *Exec) heapArr(st *State, prefix string) string {
	if a, ok := st.heap[prefix]; ok && a != "" {
		return a
	}
	for p := range st.pending {
		if p == "" || prefix == p || strings.HasPrefix(prefix, p+".") || strings.HasPrefix(prefix, p+"#") || strings.HasPrefix(prefix, p+":") {
			c := x.smt.Fresh("Hl."+prefix, x.arraySort(prefix))
			st.heap[prefix] = c
			st.markDirty(prefix)
			return c
		}
	}
	name := "H0." + sanitize(prefix)
	x.smt.Declare(name, x.arraySort(prefix))
	// NOTE: the initial array is shared by all states that never wrote it
	return name
}

func idxSort(prefix, index string) string {
	if index == "" {
		return ""
	}
	if strings.HasPrefix(prefix, "map:") {
		return strings.SplitN(prefix, ":", 3)[1]
	}
	return SBV64
}

func (x *Exec) heapRead(st *State, prefix, sort, base, index string) string {
	x.regHeap(prefix, sort, idxSort(prefix, index))
	a := x.heapArr(st, prefix)
	if index != "" {
		return sel(sel(a, base), index)
	}
	return sel(a, base)
}

func (x *Exec) heapWrite(st *State, prefix, sort, base, index, val string) {
	x.regHeap(prefix, sort, idxSort(prefix, index))
	a := x.heapArr(st, prefix)
	var n string
	if index != "" {
		n = store(a, base, store(sel(a, base), index, val))
	} else {
		n = store(a, base, val)
	}
	c := x.smt.Fresh("H."+prefix, x.arraySort(prefix))
	x.smt.Assert(eq(c, n))
	st.heap[prefix] = c
	if !x.freshRefs[base] {
		st.markDirty(prefix)
	}
}

func (st *State) markDirty(prefix string) {
	if d := os.Getenv("GOCV_DEBUG_DIRTY"); d != "" && strings.HasPrefix(prefix, d) && !st.dirty[prefix] {
		fmt.Fprintf(os.Stderr, "DIRTY %s\n%s\n", prefix, debug.Stack())
	}
	if st.dirty == nil {
		st.dirty = map[string]bool{}
	}
	st.dirty[prefix] = true
}

func (x *Exec) havocRegion(st *State, prefix string) {
	if _, ok := x.heapSort[prefix]; !ok {
		return
	}
	st.markDirty(prefix)
	st.heap[prefix] = x.smt.Fresh("Hh."+prefix, x.arraySort(prefix))
}

// loadVal reads a value of type t at pointer p.
func (x *Exec) loadVal(st *State, p Val, t types.Type) Val {
	prefix := p.ptrPrefixOr()
	ls := leavesOf(t)
	v := Val{T: t, L: make([]string, len(ls))}
	for i, l := range ls {
		v.L[i] = x.heapRead(st, prefix+l.Path, l.Sort, p.L[0], p.PtrIndex)
	}
	x.assumeTypeInv(st, v)
	return v
}

func (x *Exec) storeVal(st *State, p Val, v Val) {
	prefix := p.ptrPrefixOr()
	ls := leavesOf(v.T)
	if len(ls) != len(v.L) {
		x.unsupported("store: leaf mismatch for %v", v.T)
		return
	}
	for i, l := range ls {
		x.heapWrite(st, prefix+l.Path, l.Sort, p.L[0], p.PtrIndex, v.L[i])
	}
}

// assumeTypeInv adds the representation invariants of a value (slice header
// sanity, references allocated before now) guarded by the path condition.
func (x *Exec) assumeTypeInv(st *State, v Val) {
	if x.quantDepth > 0 {
		return // terms may mention bound variables
	}
	ls := leavesOf(v.T)
	if len(ls) != len(v.L) {
		return
	}
	var facts []string
	for i, l := range ls {
		t := v.L[i]
		if strings.HasSuffix(l.Path, "#len") && i+1 < len(ls) {
			ln, cp, off := v.L[i], v.L[i+1], v.L[i-1]
			facts = append(facts, app("bvule", ln, cp), app("bvule", cp, "#x0000010000000000"), app("bvule", off, "#x0000010000000000"))
		}
		if l.IsRef && !strings.HasPrefix(t, "#x") {
			facts = append(facts, app("bvult", t, st.alloc))
		}
		if l.Sort == SStr && t != "str.empty" {
			facts = append(facts, app("bvule", app("slen", t), "#x0000010000000000"))
		}
	}
	if len(facts) > 0 {
		x.smt.Assert(implies(st.pc, and(facts...)))
	}
}

// freshVal creates an unconstrained value of type t.
func (x *Exec) freshVal(st *State, hint string, t types.Type) Val {
	ls := leavesOf(t)
	v := Val{T: t, L: make([]string, len(ls))}
	for i, l := range ls {
		v.L[i] = x.smt.Fresh(hint+l.Path, l.Sort)
	}
	x.assumeTypeInv(st, v)
	return v
}

// allocRef returns a fresh reference distinct from every reference in use.
func (x *Exec) allocRef(st *State, hint string) string {
	r := x.smt.Name("ref."+hint, SRef, st.alloc)
	x.freshRefs[r] = true
	na := x.smt.Fresh("alloc", SRef)
	x.smt.Assert(eq(na, app("bvadd", st.alloc, "#x00000001")))
	x.smt.Assert(app("bvult", st.alloc, "#x7fffff00"))
	x.smt.Assert(and(app("bvult", st.alloc, na), app("bvult", x.alloc0, na)))
	st.alloc = na
	return r
}

// bumpAlloc lets an extern allocate an unknown number of objects.
func (x *Exec) bumpAlloc(st *State) {
	na := x.smt.Fresh("alloc", SRef)
	x.smt.Assert(app("bvuge", na, st.alloc))
	x.smt.Assert(app("bvult", na, "#x7fffff00"))
	x.smt.Assert(app("bvuge", na, x.alloc0))
	st.alloc = na
}

// ---------- strings ----------

func (x *Exec) strLit(s string) string {
	if s == "" {
		return "str.empty"
	}
	if c, ok := x.strLits[s]; ok {
		return c
	}
	c := x.smt.Fresh("lit", SStr)
	x.smt.Assert(eq(app("slen", c), bvLit(uint64(len(s)), 64)))
	if len(s) <= 24 {
		for i := 0; i < len(s); i++ {
			x.smt.Assert(eq(app("sbyte", c, bvLit(uint64(i), 64)), bvLit(uint64(s[i]), 8)))
		}
	}
	if len(x.strOrder) > 0 {
		var ds []string
		for _, o := range x.strOrder {
			ds = append(ds, not(eq(c, x.strLits[o])))
		}
		x.smt.Assert(and(ds...))
	}
	x.strLits[s] = c
	x.strOrder = append(x.strOrder, s)
	return c
}

func (x *Exec) strEq(a, b string) string {
	if a == "str.empty" {
		return eq(app("slen", b), bvLit(0, 64))
	}
	if b == "str.empty" {
		return eq(app("slen", a), bvLit(0, 64))
	}
	if x.quantDepth == 0 {
		x.smt.Assert(implies(eq(app("slen", a), bvLit(0, 64)), eq(a, "str.empty")))
		x.smt.Assert(implies(eq(app("slen", b), bvLit(0, 64)), eq(b, "str.empty")))
	}
	return eq(a, b)
}

// ---------- type tags / interfaces ----------

func (x *Exec) typeID(t types.Type) string {
	k := types.TypeString(t, nil)
	id, ok := x.typeIDs[k]
	if !ok {
		id = len(x.typeIDs) + 1
		x.typeIDs[k] = id
	}
	return bvLit(uint64(id), 16)
}

func (x *Exec) makeIface(st *State, it types.Type, v Val) Val {
	if isInterface(v.T) {
		r := v
		r.T = it
		return r
	}
	v.T = types.Default(v.T)
	tag := x.typeID(v.T)
	var term string
	ss := scalarSort(v.T)
	if isInteger(v.T) {
		ss = "int"
	}
	switch {
	case ss == "int":
		w := bvResize(v.L[0], bvWidth(scalarSort(v.T)), 64, false)
		term = app("mkibv", tag, w)
		x.smt.Assert(and(eq(app("ityp", term), tag), eq(app("ibv", term), w), not(eq(term, "inil"))))
	case ss == SRef:
		term = app("mkiref", tag, v.L[0])
		x.smt.Assert(and(eq(app("ityp", term), tag), eq(app("iref", term), v.L[0]), not(eq(term, "inil"))))
	case ss == SStr:
		term = app("mkistr", v.L[0])
		x.smt.Assert(and(eq(app("ityp", term), tag), eq(app("istr", term), v.L[0]), not(eq(term, "inil"))))
		if tag != x.typeID(types.Typ[types.String]) {
			// named string types get their own constructor instance via fresh value
			term = x.smt.Fresh("iface", SIface)
			x.smt.Assert(and(eq(app("ityp", term), tag), eq(app("istr", term), v.L[0]), not(eq(term, "inil"))))
		}
	case ss == SBool:
		term = app("mkibool", v.L[0])
		x.smt.Assert(and(eq(app("ityp", term), tag), eq(app("ibool", term), v.L[0]), not(eq(term, "inil"))))
	case bvWidth(ss) > 0:
		w := bvResize(v.L[0], bvWidth(ss), 64, false)
		term = app("mkibv", tag, w)
		x.smt.Assert(and(eq(app("ityp", term), tag), eq(app("ibv", term), w), not(eq(term, "inil"))))
	default:
		term = x.smt.Fresh("iface", SIface)
		x.smt.Assert(and(eq(app("ityp", term), tag), not(eq(term, "inil"))))
		// composite payloads (structs, slices): one accessor function per leaf
		ls := leavesOf(v.T)
		if len(ls) == len(v.L) && len(ls) > 1 {
			var facts []string
			for i, l := range ls {
				fn := x.payloadFn(v.T, i, l.Sort)
				facts = append(facts, eq(app(fn, term), v.L[i]))
			}
			x.smt.Assert(and(facts...))
		}
	}
	vv := v
	return Val{T: it, L: []string{term}, Dyn: &vv}
}

func (x *Exec) payloadFn(t types.Type, leaf int, sort string) string {
	name := fmt.Sprintf("ipay.%s.%d", sanitize(types.TypeString(t, nil)), leaf)
	x.smt.DeclareFun(name, []string{SIface}, sort)
	return name
}

// ifacePayload extracts the payload of an interface value as type t.
func (x *Exec) ifacePayload(st *State, iv Val, t types.Type) Val {
	if iv.Dyn != nil && types.Identical(iv.Dyn.T, t) {
		return *iv.Dyn
	}
	ss := scalarSort(t)
	if isInteger(t) {
		return Val{T: t, L: []string{bvResize(app("ibv", iv.L[0]), 64, bvWidth(ss), false)}}
	}
	switch {
	case ss == SRef:
		v := Val{T: t, L: []string{app("iref", iv.L[0])}}
		x.assumeTypeInv(st, v)
		return v
	case ss == SStr:
		return Val{T: t, L: []string{app("istr", iv.L[0])}}
	case ss == SBool:
		return Val{T: t, L: []string{app("ibool", iv.L[0])}}
	case bvWidth(ss) > 0:
		return Val{T: t, L: []string{bvResize(app("ibv", iv.L[0]), 64, bvWidth(ss), false)}}
	}
	ls := leavesOf(t)
	if len(ls) > 1 {
		v := Val{T: t, L: make([]string, len(ls))}
		for i, l := range ls {
			v.L[i] = app(x.payloadFn(t, i, l.Sort), iv.L[0])
		}
		return v
	}
	return x.freshVal(st, "payload", t)
}

func (x *Exec) fnConst(f *ssa.Function) string {
	if c, ok := x.fnConsts[f]; ok {
		return c
	}
	c := x.smt.Fresh("fn."+f.Name(), SFn)
	var ds []string
	ds = append(ds, not(eq(c, "fnil")))
	for _, o := range x.fnConsts {
		ds = append(ds, not(eq(c, o)))
	}
	ds = append(ds, eq(app("fcode", c), x.fnCode(f)))
	x.smt.Assert(and(ds...))
	x.fnConsts[f] = c
	return c
}

// fnCode identifies the code of a function value (shared by all closures of it).
func (x *Exec) fnCode(f *ssa.Function) string {
	if strings.HasSuffix(f.Name(), "$bound") {
		// bound method value t.M: named after the method it binds
		if obj, ok := f.Object().(*types.Func); ok {
			if m := x.prog.ssa.FuncValue(obj); m != nil {
				return fnCodeOf(x.prog.relName(m) + "$bound")
			}
		}
	}
	return fnCodeOf(x.prog.relName(f))
}

func fnCodeOf(rel string) string {
	h := fnv.New32a()
	h.Write([]byte(rel))
	return bvLit(uint64(h.Sum32()), 32)
}

// ---------- obligations ----------

func (x *Exec) siteName(base string) string {
	x.siteCount[base]++
	if n := x.siteCount[base]; n > 1 {
		return fmt.Sprintf("%s#%d", base, n)
	}
	return base
}

func (x *Exec) oblige(st *State, kind, name string, tags []string, pos token.Pos, goal string) *Obligation {
	if st.dead || st.pc == "false" {
		return nil
	}
	// a clause that is a conjunction with quantified conjuncts is proved conjunct by conjunct
	// (smaller queries; the parts are named name, name~p1, name~p2, ... and count as one clause)
	goals := []string{goal}
	switch kind {
	case "ensures", "inv.entry", "inv.preserve", "site", "call.requires":
		if strings.Contains(goal, "(forall ") && len(goal) < 300000 {
			if parts := splitGoal(goal); len(parts) > 1 {
				goals = parts
			}
		}
	}
	var first *Obligation
	for i, g := range goals {
		n := name
		if i > 0 {
			n = fmt.Sprintf("%s~p%d", name, i)
		}
		o := &Obligation{Name: n, Kind: kind, Tags: tags, prefix: len(x.smt.asserts), pc: st.pc, goal: g, smt: x.smt, exec: x, frame: x.topFrame}
		if x.topFn != nil {
			o.Func = x.topFn.String()
		}
		if pos.IsValid() && x.prog != nil {
			o.Pos = x.prog.fset.Position(pos)
		}
		x.obls = append(x.obls, o)
		if first == nil {
			first = o
		}
	}
	return first
}

func (x *Exec) safetyOblige(fr *Frame, st *State, kind string, instr ssa.Instruction, text string, goal string) {
	if !x.safety {
		return
	}
	if goal == "true" {
		return
	}
	site := x.srcText(instr)
	if text != "" {
		site = text
	}
	fn := x.topFn
	name := x.siteName(fmt.Sprintf("%s/%s@%s", x.prog.relName(fn), kind, site))
	if fr != nil && !fr.top {
		name += "~in~" + fr.fn.Name()
	}
	x.oblige(st, kind, name, x.safetyTag, instr.Pos(), goal)
}

// ---------- function execution ----------

type loopInfo struct {
	header *ssa.BasicBlock
	body   map[*ssa.BasicBlock]bool
	back   []*ssa.BasicBlock // predecessors through back edges
	index  int               // ordinal in source order
}

func findLoops(fn *ssa.Function) map[*ssa.BasicBlock]*loopInfo {
	loops := map[*ssa.BasicBlock]*loopInfo{}
	for _, b := range fn.Blocks {
		for _, s := range b.Succs {
			if s.Dominates(b) {
				li := loops[s]
				if li == nil {
					li = &loopInfo{header: s, body: map[*ssa.BasicBlock]bool{s: true}}
					loops[s] = li
				}
				li.back = append(li.back, b)
				// collect body: nodes reaching b without passing header
				var stack []*ssa.BasicBlock
				if !li.body[b] {
					li.body[b] = true
					stack = append(stack, b)
				}
				for len(stack) > 0 {
					n := stack[len(stack)-1]
					stack = stack[:len(stack)-1]
					for _, p := range n.Preds {
						if !li.body[p] {
							li.body[p] = true
							stack = append(stack, p)
						}
					}
				}
			}
		}
	}
	// ordinals by header position (block index is source order for headers)
	var hs []*ssa.BasicBlock
	for h := range loops {
		hs = append(hs, h)
	}
	// ordinals follow source order: smallest source position found in the loop
	minPos := func(h *ssa.BasicBlock) token.Pos {
		var m token.Pos
		for b := range loops[h].body {
			for _, in := range b.Instrs {
				if _, isPhi := in.(*ssa.Phi); isPhi {
					continue // a phi carries the position of the variable's declaration
				}
				if p := in.Pos(); p.IsValid() && (m == 0 || p < m) {
					m = p
				}
			}
		}
		return m
	}
	sort.Slice(hs, func(i, j int) bool {
		pi, pj := minPos(hs[i]), minPos(hs[j])
		if pi != pj {
			return pi < pj
		}
		return hs[i].Index < hs[j].Index
	})
	for i, h := range hs {
		loops[h].index = i
	}
	return loops
}

func rpo(fn *ssa.Function) []*ssa.BasicBlock {
	seen := map[*ssa.BasicBlock]bool{}
	var post []*ssa.BasicBlock
	var dfs func(b *ssa.BasicBlock)
	dfs = func(b *ssa.BasicBlock) {
		seen[b] = true
		for _, s := range b.Succs {
			if !seen[s] {
				dfs(s)
			}
		}
		post = append(post, b)
	}
	if len(fn.Blocks) > 0 {
		dfs(fn.Blocks[0])
	}
	for i, j := 0, len(post)-1; i < j; i, j = i+1, j-1 {
		post[i], post[j] = post[j], post[i]
	}
	return post
}

type edgeState struct {
	st   *State
	from *ssa.BasicBlock
}

// mergeStates joins several edge states into one.
func (x *Exec) mergeStates(es []*State) *State {
	var live []*State
	for _, s := range es {
		if s != nil && !s.dead && s.pc != "false" {
			live = append(live, s)
		}
	}
	if len(live) == 0 {
		return &State{pc: "false", dead: true, heap: map[string]string{}, ghost: map[string]Val{}, alloc: "#x00000001"}
	}
	if len(live) == 1 {
		return live[0].clone()
	}
	var pcs []string
	for _, s := range live {
		pcs = append(pcs, s.pc)
	}
	n := &State{heap: map[string]string{}, ghost: map[string]Val{}, dirty: map[string]bool{}}
	for _, s := range live {
		for k := range s.dirty {
			n.dirty[k] = true
		}
		for k := range s.pending {
			if n.pending == nil {
				n.pending = map[string]bool{}
			}
			n.pending[k] = true
		}
	}
	n.pc = x.smt.Name("pc", SBool, or(pcs...))
	keys := map[string]bool{}
	for _, s := range live {
		for k := range s.heap {
			keys[k] = true
		}
	}
	for _, k := range sortedKeys(keys) {
		if _, known := x.heapSort[k]; !known {
			continue
		}
		var terms []string
		for _, s := range live {
			terms = append(terms, x.heapArr(s, k))
		}
		n.heap[k] = x.mergeTerms(live, terms, "Hm."+k, x.arraySort(k))
	}
	gk := map[string]bool{}
	for _, s := range live {
		for k := range s.ghost {
			gk[k] = true
		}
	}
	for _, k := range sortedKeys(gk) {
		base := live[0].ghost[k]
		v := Val{T: base.T, L: make([]string, len(base.L))}
		for i := range base.L {
			var terms []string
			for _, s := range live {
				terms = append(terms, s.ghost[k].L[i])
			}
			v.L[i] = x.mergeTerms(live, terms, "g."+k, leavesOf(base.T)[i].Sort)
		}
		n.ghost[k] = v
	}
	var as []string
	for _, s := range live {
		as = append(as, s.alloc)
	}
	n.alloc = x.mergeTerms(live, as, "alloc", SRef)
	return n
}

func (x *Exec) mergeTerms(live []*State, terms []string, hint, sort string) string {
	same := true
	for _, t := range terms[1:] {
		if t != terms[0] {
			same = false
		}
	}
	if same {
		return terms[0]
	}
	r := terms[len(terms)-1]
	for i := len(terms) - 2; i >= 0; i-- {
		r = ite(live[i].pc, terms[i], r)
	}
	return x.smt.Name(hint, sort, r)
}

func (x *Exec) srcText(instr ssa.Instruction) string {
	return x.prog.sourceText(instr)
}

// execBody runs fn's CFG from the given entry state. For the top frame the
// contract's ensures are checked at each return; for inlined frames the return
// states are collected in fr.retStates.
func (x *Exec) execBody(fr *Frame, entry *State) {
	fn := fr.fn
	if len(fn.Blocks) == 0 {
		x.unsupported("function %s has no body", fn)
		return
	}
	loops := findLoops(fn)
	order := rpo(fn)
	in := map[*ssa.BasicBlock][]edgeState{}
	in[fn.Blocks[0]] = []edgeState{{entry, nil}}

	done := map[*ssa.BasicBlock]bool{}
	for _, b := range order {
		if done[b] {
			continue
		}
		edges := in[b]
		var st *State
		li := loops[b]
		fr.curBlock = b
		if li != nil {
			if n, ok := x.canUnroll(fr, li, loops, edges); ok {
				x.unrollLoop(fr, li, n, edges, in, loops, order)
				for bb := range li.body {
					done[bb] = true
				}
				continue
			}
			st = x.enterLoop(fr, b, li, edges)
		} else {
			var ss []*State
			for _, e := range edges {
				ss = append(ss, e.st)
			}
			st = x.mergeStates(ss)
			// phis
			for _, instr := range b.Instrs {
				phi, ok := instr.(*ssa.Phi)
				if !ok {
					break
				}
				fr.vals[phi] = x.mergePhi(fr, phi, edges, b)
			}
		}
		if st.dead {
			continue
		}
		x.execBlock(fr, b, st, in, loops)
	}
	x.finishPanics(fr, in, loops)
}

func (x *Exec) mergePhi(fr *Frame, phi *ssa.Phi, edges []edgeState, b *ssa.BasicBlock) Val {
	var live []*State
	var vals []Val
	for _, e := range edges {
		if e.st == nil || e.st.dead || e.st.pc == "false" {
			continue
		}
		idx := -1
		for i, p := range b.Preds {
			if p == e.from {
				idx = i
				// multiple edges from the same pred (switch): both have same value
				break
			}
		}
		if idx < 0 {
			continue
		}
		live = append(live, e.st)
		vals = append(vals, x.operand(fr, e.st, phi.Edges[idx]))
	}
	if len(vals) == 0 {
		return zeroVal(phi.Type())
	}
	if len(vals) == 1 {
		return vals[0]
	}
	r := Val{T: phi.Type(), L: make([]string, len(vals[0].L))}
	ls := leavesOf(phi.Type())
	for i := range r.L {
		var terms []string
		for _, v := range vals {
			if i < len(v.L) {
				terms = append(terms, v.L[i])
			} else {
				terms = append(terms, zeroLeaf(ls[i].Sort))
			}
		}
		sort := SOpq
		if i < len(ls) {
			sort = ls[i].Sort
		}
		r.L[i] = x.mergeTerms(live, terms, "phi."+phi.Name(), sort)
	}
	// keep static pointer info if identical on all edges
	pp, pi := vals[0].PtrPrefix, vals[0].PtrIndex
	samePtr := true
	for _, v := range vals[1:] {
		if v.PtrPrefix != pp || v.PtrIndex != pi {
			samePtr = false
		}
	}
	if samePtr {
		r.PtrPrefix, r.PtrIndex = pp, pi
	} else if pp != "" || pi != "" {
		x.unsupported("phi %s merges interior pointers into different regions", phi.Name())
	}
	return r
}

// enterLoop handles a loop header: checks the invariant on entry, havocs what
// the loop modifies and assumes the invariant.
func (x *Exec) enterLoop(fr *Frame, b *ssa.BasicBlock, li *loopInfo, edges []edgeState) *State {
	var entryEdges []edgeState
	for _, e := range edges {
		isBack := false
		for _, bb := range li.back {
			if e.from == bb {
				isBack = true
			}
		}
		if !isBack {
			entryEdges = append(entryEdges, e)
		}
	}
	var ss []*State
	for _, e := range entryEdges {
		ss = append(ss, e.st)
	}
	se := x.mergeStates(ss)
	if se.dead {
		return se
	}
	// phi values on entry
	var phis []*ssa.Phi
	for _, instr := range b.Instrs {
		if phi, ok := instr.(*ssa.Phi); ok {
			phis = append(phis, phi)
		} else {
			break
		}
	}
	for _, phi := range phis {
		fr.vals[phi] = x.mergePhi(fr, phi, entryEdges, b)
	}
	invs := x.loopInvariants(fr, li)
	// derived invariant of `for i := range slice` loops: -1 <= rangeindex < len
	// (checked like any other invariant: on entry here, at back edges in backEdge)
	autoPhi, autoBound := rangeIndexPattern(b, li)
	if autoPhi != nil {
		if bv, ok := fr.vals[autoBound]; ok || isConstVal(autoBound) {
			if !ok {
				bv = x.operand(fr, se, autoBound)
			}
			v := fr.vals[autoPhi].L[0]
			g := and(app("bvsle", bvLit(^uint64(0), 64), v), app("bvslt", v, bv.L[0]))
			x.oblige(se, "inv.entry", x.siteName(fmt.Sprintf("%s/loop%d.inv.rangeindex.entry%s", x.prog.relName(x.topFn), li.index, inlineSuffix(fr))), nil, b.Instrs[0].Pos(), g)
		} else {
			autoPhi = nil
		}
	}
	for _, inv := range invs {
		var outer map[string]Val
		idx := li.index
		borrowed := fr.ctr == nil
		if borrowed {
			outer = x.outerEnv(fr, se)
			idx = inv.Loop
		}
		g := x.evalSpecBool(fr, se, fr.entry, inv.Expr, outer)
		name := fmt.Sprintf("%s/loop%d.inv.%s.entry", x.prog.relName(x.topFn), idx, inv.Label)
		if !fr.top && !borrowed {
			name += "~in~" + fr.fn.Name()
		}
		x.oblige(se, "inv.entry", x.siteName(name), inv.Tags, b.Instrs[0].Pos(), g)
	}
	// havoc
	sh := se.clone()
	x.epoch++
	pch := x.smt.Fresh(fmt.Sprintf("pc.loop%d", li.index), SBool)
	x.smt.Assert(implies(pch, se.pc))
	sh.pc = pch
	eff := x.loopModSet(fr, li)
	if os.Getenv("GOCV_DEBUG_LOOP") != "" {
		var ats []string
		for _, e := range eff.at {
			ats = append(ats, e.region+"@"+e.base.Name())
		}
		fmt.Fprintf(os.Stderr, "LOOP %s #%d whole=%v at=%v ghosts=%v all=%v\n", fr.fn.Name(), li.index, sortedKeys(eff.whole), ats, sortedKeys(eff.ghosts), eff.all)
	}
	matches := func(hk, k string) bool {
		return hk == k || strings.HasPrefix(hk, k+".") || strings.HasPrefix(hk, k+"#") || strings.HasPrefix(hk, k+":")
	}
	if eff.all {
		for k := range x.heapSort {
			x.havocRegion(sh, k)
		}
		x.havocAllFuture(sh)
		x.warn("%s loop %d: callee with unknown effects, whole heap havocked", fr.fn.Name(), li.index)
		for k := range sh.ghost {
			sh.ghost[k] = x.freshVal(sh, "g."+k, sh.ghost[k].T)
		}
	} else {
		for _, k := range sortedKeys(eff.whole) {
			hit := false
			for hk := range x.heapSort {
				if matches(hk, k) {
					x.havocRegion(sh, hk)
					hit = true
				}
			}
			if !hit {
				x.pendingHavoc(sh, k)
			}
		}
		for _, e := range eff.at {
			bv, ok := fr.vals[e.base]
			if !ok {
				if _, isG := e.base.(*ssa.Global); isG {
					bv = x.operand(fr, sh, e.base)
				} else {
					for hk := range x.heapSort {
						if matches(hk, e.region) {
							x.havocRegion(sh, hk)
						}
					}
					x.pendingHavoc(sh, e.region)
					continue
				}
			}
			if isInterface(bv.T) && bv.Dyn != nil {
				bv = *bv.Dyn
			}
			ref := bv.L[0]
			if isInterface(bv.T) {
				ref = app("iref", bv.L[0])
			}
			hit := false
			for hk := range x.heapSort {
				if matches(hk, e.region) {
					x.havocAt(sh, hk, ref, "")
					hit = true
				}
			}
			if !hit {
				x.pendingHavoc(sh, e.region)
			}
		}
		for _, g := range sortedKeys(eff.ghosts) {
			if gv, ok := sh.ghost[g]; ok {
				sh.ghost[g] = x.freshVal(sh, "g."+g, gv.T)
			}
		}
	}
	na := x.smt.Fresh("alloc", SRef)
	x.smt.Assert(and(app("bvuge", na, se.alloc), app("bvult", na, "#x7fffff00"), app("bvuge", na, x.alloc0)))
	sh.alloc = na
	for _, phi := range phis {
		fr.vals[phi] = x.freshVal(sh, "loop."+phi.Name(), phi.Type())
		if phi.Comment != "" {
			// keep
		}
	}
	for _, inv := range invs {
		var outer map[string]Val
		if fr.ctr == nil {
			outer = x.outerEnv(fr, sh)
		}
		g := x.evalSpecBool(fr, sh, fr.entry, inv.Expr, outer)
		x.smt.Assert(implies(sh.pc, g))
	}
	if autoPhi != nil {
		bv, ok := fr.vals[autoBound]
		if !ok {
			bv = x.operand(fr, sh, autoBound)
		}
		v := fr.vals[autoPhi].L[0]
		x.smt.Assert(implies(sh.pc, and(app("bvsle", bvLit(^uint64(0), 64), v), app("bvslt", v, bv.L[0]))))
	}
	return sh
}

// pendingHavoc records that a region not yet registered must not use the
// function-entry array from here on: its first use creates a fresh array.
func (x *Exec) pendingHavoc(st *State, prefix string) {
	if st.pending == nil {
		st.pending = map[string]bool{}
	}
	st.pending[prefix] = true
	st.markDirty(prefix)
}

func (x *Exec) havocAllFuture(st *State) {
	x.pendingHavoc(st, "")
}

// borrowedInvariants: a loop that was moved into an extracted helper (inlined here, no contract of its
// own) keeps the invariants the enclosing function's contract states for it. The loops of such helpers
// continue the numbering of the loops the function under verification still has itself, in the order
// in which they are first reached. A convenience like the name healing: every clause is still proved.
func (x *Exec) borrowedInvariants(fr *Frame, li *loopInfo) []*Clause {
	if fr.ctr != nil || fr.parent == nil {
		return nil
	}
	top := fr
	for top.parent != nil {
		top = top.parent
	}
	if !top.top || top.ctr == nil {
		return nil
	}
	if x.borrowedLoop == nil {
		x.borrowedLoop = map[string]int{}
	}
	key := fmt.Sprintf("%s#%d", fr.fn.String(), li.index)
	k, ok := x.borrowedLoop[key]
	if !ok {
		k = len(findLoops(top.fn)) + len(x.borrowedLoop)
		x.borrowedLoop[key] = k
	}
	var r []*Clause
	for _, c := range top.ctr.Clauses {
		if c.Kind == "invariant" && c.Loop == k {
			r = append(r, c)
			if x.siteMatched == nil {
				x.siteMatched = map[*Clause]bool{}
			}
			x.siteMatched[c] = true
		}
	}
	return r
}

// outerEnv: the source-level names of the frames that enclose an inlined frame (inner frames shadow
// outer ones; names of the inlined frame itself are not included: they resolve natively).
func (x *Exec) outerEnv(fr *Frame, st *State) map[string]Val {
	var chain []*Frame
	for f := fr.parent; f != nil; f = f.parent {
		chain = append([]*Frame{f}, chain...)
	}
	env := map[string]Val{}
	for _, f := range chain {
		fe := map[string]Val{}
		for k, v := range f.params {
			fe[k] = v
		}
		for k, v := range f.locals(x, st) {
			if _, ok := fe[k]; !ok {
				fe[k] = v
			}
		}
		x.aliasEnv(f.fn, fe)
		for k, v := range fe {
			env[k] = v
		}
	}
	for k := range fr.params {
		delete(env, k)
	}
	for k := range fr.locals(x, st) {
		delete(env, k)
	}
	return env
}

func (x *Exec) loopInvariants(fr *Frame, li *loopInfo) []*Clause {
	if fr.ctr == nil {
		return x.borrowedInvariants(fr, li)
	}
	var r []*Clause
	for _, c := range fr.ctr.Clauses {
		if c.Kind == "invariant" && c.Loop == li.index {
			r = append(r, c)
			if fr.top {
				if x.siteMatched == nil {
					x.siteMatched = map[*Clause]bool{}
				}
				x.siteMatched[c] = true
			}
		}
	}
	return r
}

// back edge: check invariants with the values flowing along the edge.
func (x *Exec) backEdge(fr *Frame, from *ssa.BasicBlock, li *loopInfo, st *State) {
	b := li.header
	saved := map[*ssa.Phi]Val{}
	idx := -1
	for i, p := range b.Preds {
		if p == from {
			idx = i
		}
	}
	for _, instr := range b.Instrs {
		phi, ok := instr.(*ssa.Phi)
		if !ok {
			break
		}
		saved[phi] = fr.vals[phi]
	}
	newVals := map[*ssa.Phi]Val{}
	for phi := range saved {
		newVals[phi] = x.operand(fr, st, phi.Edges[idx])
	}
	for phi, v := range newVals {
		fr.vals[phi] = v
	}
	savedBlock := fr.curBlock
	fr.curBlock = b
	defer func() { fr.curBlock = savedBlock }()
	if autoPhi, autoBound := rangeIndexPattern(b, li); autoPhi != nil {
		bv, ok := fr.vals[autoBound]
		if !ok && isConstVal(autoBound) {
			bv, ok = x.operand(fr, st, autoBound), true
		}
		if ok {
			v := fr.vals[autoPhi].L[0]
			g := and(app("bvsle", bvLit(^uint64(0), 64), v), app("bvslt", v, bv.L[0]))
			x.oblige(st, "inv.preserve", x.siteName(fmt.Sprintf("%s/loop%d.inv.rangeindex.preserve@%s%s", x.prog.relName(x.topFn), li.index, x.edgeLabel(from), inlineSuffix(fr))), nil, from.Instrs[len(from.Instrs)-1].Pos(), g)
		}
	}
	for _, inv := range x.loopInvariants(fr, li) {
		var outer map[string]Val
		idx := li.index
		borrowed := fr.ctr == nil
		if borrowed {
			outer = x.outerEnv(fr, st)
			idx = inv.Loop
		}
		g := x.evalSpecBool(fr, st, fr.entry, inv.Expr, outer)
		label := x.edgeLabel(from)
		name := fmt.Sprintf("%s/loop%d.inv.%s.preserve@%s", x.prog.relName(x.topFn), idx, inv.Label, label)
		if !fr.top && !borrowed {
			name += "~in~" + fr.fn.Name()
		}
		x.oblige(st, "inv.preserve", x.siteName(name), inv.Tags, from.Instrs[len(from.Instrs)-1].Pos(), g)
	}
	for phi, v := range saved {
		fr.vals[phi] = v
	}
}

func (x *Exec) edgeLabel(from *ssa.BasicBlock) string {
	c := from.Comment
	if c == "" {
		c = fmt.Sprintf("b%d", from.Index)
	}
	return c
}

func (x *Exec) execBlock(fr *Frame, b *ssa.BasicBlock, st *State, in map[*ssa.BasicBlock][]edgeState, loops map[*ssa.BasicBlock]*loopInfo) {
	fr.curBlock = b
	if fr.top && os.Getenv("GOCV_COVER_BLOCKS") != "" {
		x.cover(st, fmt.Sprintf("%s/cover.block%d.%s", x.prog.relName(fr.fn), b.Index, b.Comment))
	}
	for _, instr := range b.Instrs {
		if _, ok := instr.(*ssa.Phi); ok {
			continue
		}
		if fr.top && os.Getenv("GOCV_COVER_BLOCKS") != "" {
			if _, isCall := instr.(*ssa.Call); isCall {
				x.cover(st, x.siteName(fmt.Sprintf("%s/cover.before@%s", x.prog.relName(fr.fn), x.srcText(instr))))
			}
		}
		if st.dead {
			return
		}
		switch t := instr.(type) {
		case *ssa.If:
			c := x.operand(fr, st, t.Cond).S()
			c = x.smt.Name("br", SBool, c)
			s1 := st.clone()
			s1.pc = x.smt.Name("pc", SBool, and(st.pc, c))
			s2 := st.clone()
			s2.pc = x.smt.Name("pc", SBool, and(st.pc, not(c)))
			x.flow(fr, b, b.Succs[0], s1, in, loops)
			x.flow(fr, b, b.Succs[1], s2, in, loops)
			return
		case *ssa.Jump:
			x.flow(fr, b, b.Succs[0], st, in, loops)
			return
		case *ssa.Return:
			var rs []Val
			for _, r := range t.Results {
				rs = append(rs, x.operand(fr, st, r))
			}
			x.doReturn(fr, st, rs, t)
			return
		case *ssa.Panic:
			x.safetyOblige(fr, st, "panic", instr, "", "false")
			st.dead = true
			return
		default:
			x.execInstr(fr, st, instr)
		}
	}
}

func (x *Exec) flow(fr *Frame, from, to *ssa.BasicBlock, st *State, in map[*ssa.BasicBlock][]edgeState, loops map[*ssa.BasicBlock]*loopInfo) {
	if fr.flowHook != nil && fr.flowHook(from, to, st) {
		return
	}
	if li := loops[to]; li != nil {
		for _, bb := range li.back {
			if bb == from {
				x.backEdge(fr, from, li, st)
				return
			}
		}
	}
	in[to] = append(in[to], edgeState{st, from})
}

func (x *Exec) cover(st *State, name string) {
	x.covers = append(x.covers, &Cover{Name: name, prefix: len(x.smt.asserts), pc: st.pc, smt: x.smt})
}

func (x *Exec) doReturn(fr *Frame, st *State, rs []Val, ret *ssa.Return) {
	if fr.top {
		x.cover(st, x.siteName(fmt.Sprintf("%s/cover.return", x.prog.relName(fr.fn))))
		x.checkEnsures(fr, st, rs, ret)
		return
	}
	fr.retStates = append(fr.retStates, st)
	fr.retVals = append(fr.retVals, rs)
}

// ---------- operands ----------

func (x *Exec) operand(fr *Frame, st *State, v ssa.Value) Val {
	switch t := v.(type) {
	case *ssa.Const:
		return x.constVal(t)
	case *ssa.Global:
		prefix := "global." + shortPkg(t.Pkg.Pkg.Path()) + "." + t.Name()
		return Val{T: t.Type(), L: []string{"#x00000001"}, PtrPrefix: prefix, NonNil: true}
	case *ssa.Function:
		return Val{T: t.Type(), L: []string{x.fnConst(t)}, Fn: t}
	case *ssa.Builtin:
		return Val{T: t.Type(), L: []string{"fnil"}}
	}
	if val, ok := fr.vals[v]; ok {
		return val
	}
	x.unsupported("%s: value %s (%T) used before definition", fr.fn.Name(), v.Name(), v)
	val := x.freshVal(st, "undef."+v.Name(), v.Type())
	fr.vals[v] = val
	return val
}

func (x *Exec) constVal(c *ssa.Const) Val {
	t := c.Type()
	if c.Value == nil {
		return zeroVal(t)
	}
	switch u := t.Underlying().(type) {
	case *types.Basic:
		switch {
		case u.Info()&types.IsBoolean != 0:
			if constant.BoolVal(c.Value) {
				return Val{T: t, L: []string{"true"}}
			}
			return Val{T: t, L: []string{"false"}}
		case u.Info()&types.IsInteger != 0:
			w := basicWidth(u)
			var bits uint64
			if i, ok := constant.Int64Val(constant.ToInt(c.Value)); ok {
				bits = uint64(i)
			} else if ui, ok := constant.Uint64Val(constant.ToInt(c.Value)); ok {
				bits = ui
			}
			return Val{T: t, L: []string{bvLit(bits, w)}}
		case u.Info()&types.IsString != 0:
			return Val{T: t, L: []string{x.strLit(constant.StringVal(c.Value))}}
		}
	}
	return Val{T: t, L: []string{x.smt.Fresh("const", SOpq)}}
}

func (x *Exec) intConst(v int64, t types.Type) Val {
	w := bvWidth(scalarSort(t))
	return Val{T: t, L: []string{bvLit(uint64(v), w)}}
}

func inlineSuffix(fr *Frame) string {
	if fr.top {
		return ""
	}
	return "~in~" + fr.fn.Name()
}

func isConstVal(v ssa.Value) bool {
	_, ok := v.(*ssa.Const)
	return ok
}

// rangeIndexPattern recognises the SSA shape of `for i := range s`:
//   h: k = phi [-1, k+1] #rangeindex; k1 = k + 1; c = k1 < n; if c ...
// and returns the phi and the bound n (defined outside the loop).
func rangeIndexPattern(h *ssa.BasicBlock, li *loopInfo) (*ssa.Phi, ssa.Value) {
	for _, instr := range h.Instrs {
		phi, ok := instr.(*ssa.Phi)
		if !ok {
			break
		}
		if phi.Comment != "rangeindex" || bvWidth(scalarSort(phi.Type())) != 64 {
			continue
		}
		for _, u := range *phi.Referrers() {
			add, ok := u.(*ssa.BinOp)
			if !ok || add.Op != token.ADD || add.X != phi || add.Block() != h {
				continue
			}
			if c, ok := add.Y.(*ssa.Const); !ok || c.Int64() != 1 {
				continue
			}
			for _, u2 := range *add.Referrers() {
				cmp, ok := u2.(*ssa.BinOp)
				if !ok || cmp.Op != token.LSS || cmp.X != add || cmp.Block() != h {
					continue
				}
				if bi, ok := cmp.Y.(ssa.Instruction); ok && li.body[bi.Block()] {
					continue
				}
				return phi, cmp.Y
			}
		}
	}
	return nil, nil
}

// canUnroll: a `for i := range s` loop over a slice whose length is a small
// literal, without user invariants and without nested loops, is unrolled
// instead of being cut at an invariant.
func (x *Exec) canUnroll(fr *Frame, li *loopInfo, loops map[*ssa.BasicBlock]*loopInfo, edges []edgeState) (int, bool) {
	if len(x.loopInvariants(fr, li)) > 0 || fr.flowHook != nil {
		return 0, false
	}
	for h := range loops {
		if h != li.header && li.body[h] {
			return 0, false
		}
	}
	phi, bound := rangeIndexPattern(li.header, li)
	if phi == nil {
		return 0, false
	}
	var bv Val
	if c, ok := bound.(*ssa.Const); ok {
		bv = x.constVal(c)
	} else if v, ok := fr.vals[bound]; ok {
		bv = v
	} else {
		return 0, false
	}
	n, ok := bvValue(bv.L[0])
	if !ok || n > 16 {
		return 0, false
	}
	return int(n), true
}

func (x *Exec) unrollLoop(fr *Frame, li *loopInfo, n int, edges []edgeState, in map[*ssa.BasicBlock][]edgeState, loops map[*ssa.BasicBlock]*loopInfo, order []*ssa.BasicBlock) {
	var bodyOrder []*ssa.BasicBlock
	for _, b := range order {
		if li.body[b] {
			bodyOrder = append(bodyOrder, b)
		}
	}
	isBackPred := map[*ssa.BasicBlock]bool{}
	for _, b := range li.back {
		isBackPred[b] = true
	}
	var headerIn []edgeState
	for _, e := range edges {
		if !isBackPred[e.from] {
			headerIn = append(headerIn, e)
		}
	}
	for iter := 0; iter <= n; iter++ {
		localIn := map[*ssa.BasicBlock][]edgeState{li.header: headerIn}
		var nextBack []edgeState
		fr.flowHook = func(from, to *ssa.BasicBlock, st *State) bool {
			switch {
			case to == li.header && isBackPred[from]:
				nextBack = append(nextBack, edgeState{st, from})
			case li.body[to]:
				localIn[to] = append(localIn[to], edgeState{st, from})
			default:
				in[to] = append(in[to], edgeState{st, from})
			}
			return true
		}
		for _, b := range bodyOrder {
			es := localIn[b]
			if len(es) == 0 {
				continue
			}
			fr.curBlock = b
			var ss []*State
			for _, e := range es {
				ss = append(ss, e.st)
			}
			st := x.mergeStates(ss)
			for _, instr := range b.Instrs {
				phi, ok := instr.(*ssa.Phi)
				if !ok {
					break
				}
				fr.vals[phi] = x.mergePhi(fr, phi, es, b)
			}
			if st.dead {
				continue
			}
			x.execBlock(fr, b, st, in, loops)
		}
		fr.flowHook = nil
		headerIn = nextBack
		if len(headerIn) == 0 {
			break
		}
	}
}
