package main

// Symbolic values: every Go value is flattened into a list of scalar SMT terms
// ("leaves"). Composite types (slices, structs) have several leaves.

import (
	"fmt"
	"go/constant"
	"go/types"
	"hash/fnv"
	"strings"

	"golang.org/x/tools/go/ssa"
)

type Val struct {
	T types.Type
	L []string // leaf terms

	// pointers: where the pointee lives in the field-sensitive heap
	PtrPrefix string // "" = derive from T
	PtrIndex  string // non-empty: element of a 2-level (array) region

	NonNil bool        // statically known to be non-nil (address of a field/element/local)
	Dyn  *Val          // interface: statically known payload
	Fn   *ssa.Function // function value: statically known target
	Bind []Val         // closure bindings
	// untyped constant in spec expressions
	Const constant.Value
}

func (v Val) S() string {
	if len(v.L) != 1 {
		panic(fmt.Sprintf("S() on composite value of type %v with %d leaves", v.T, len(v.L)))
	}
	return v.L[0]
}

type Leaf struct {
	Path  string
	Sort  string
	IsRef bool
}

func isRefType(t types.Type) bool {
	switch u := t.Underlying().(type) {
	case *types.Pointer, *types.Map, *types.Chan:
		return true
	case *types.Basic:
		return u.Kind() == types.UnsafePointer
	}
	return false
}

var leafCache = map[types.Type][]Leaf{}

func isUnsigned(t types.Type) bool {
	if b, ok := t.Underlying().(*types.Basic); ok {
		return b.Info()&types.IsUnsigned != 0
	}
	return false
}

func basicWidth(b *types.Basic) int {
	switch b.Kind() {
	case types.Int8, types.Uint8:
		return 8
	case types.Int16, types.Uint16:
		return 16
	case types.Int32, types.Uint32:
		return 32
	case types.Int, types.Uint, types.Int64, types.Uint64, types.Uintptr, types.UntypedInt, types.UntypedRune:
		return 64
	}
	return 0
}

// scalarSort returns the SMT sort for a type that is a single leaf, or "".
func scalarSort(t types.Type) string {
	switch u := t.Underlying().(type) {
	case *types.Basic:
		if u.Info()&types.IsBoolean != 0 {
			return SBool
		}
		if u.Info()&types.IsInteger != 0 {
			return bvSort(basicWidth(u))
		}
		if u.Info()&types.IsString != 0 {
			return SStr
		}
		if u.Kind() == types.UnsafePointer {
			return SRef
		}
		if u.Kind() == types.UntypedNil {
			return SRef
		}
		return SOpq
	case *types.Pointer, *types.Map, *types.Chan:
		return SRef
	case *types.Interface:
		return SIface
	case *types.Signature:
		return SFn
	case *types.Array:
		return SOpq // arrays by value are opaque
	case *types.TypeParam:
		return SOpq
	}
	return ""
}

func leavesOf(t types.Type) []Leaf {
	if ls, ok := leafCache[t]; ok {
		return ls
	}
	var ls []Leaf
	if s := scalarSort(t); s != "" {
		ls = []Leaf{{"", s, isRefType(t)}}
	} else {
		switch u := t.Underlying().(type) {
		case *types.Slice:
			ls = []Leaf{{"#ref", SRef, true}, {"#off", SBV64, false}, {"#len", SBV64, false}, {"#cap", SBV64, false}}
		case *types.Struct:
			for i := 0; i < u.NumFields(); i++ {
				f := u.Field(i)
				for _, l := range leavesOf(f.Type()) {
					ls = append(ls, Leaf{"." + f.Name() + l.Path, l.Sort, l.IsRef})
				}
			}
		case *types.Tuple:
			for i := 0; i < u.Len(); i++ {
				for _, l := range leavesOf(u.At(i).Type()) {
					ls = append(ls, Leaf{fmt.Sprintf(".%d%s", i, l.Path), l.Sort, l.IsRef})
				}
			}
		default:
			ls = []Leaf{{"", SOpq, false}}
		}
	}
	leafCache[t] = ls
	return ls
}

// typePrefix names the heap region family holding objects of type t.
func typePrefix(t types.Type) string {
	switch u := t.(type) {
	case *types.Named:
		o := u.Obj()
		if o.Pkg() != nil {
			return shortPkg(o.Pkg().Path()) + "." + o.Name()
		}
		return o.Name()
	case *types.Alias:
		return typePrefix(types.Unalias(u))
	}
	switch u := t.Underlying().(type) {
	case *types.Struct:
		h := fnv.New32a()
		h.Write([]byte(u.String()))
		return fmt.Sprintf("anon%x", h.Sum32())
	case *types.Array:
		return "arr." + elemPrefix(u.Elem())
	}
	if s := scalarSort(t); s != "" {
		return "cell." + sortTag(s)
	}
	if _, ok := t.Underlying().(*types.Slice); ok {
		return "cell.slice." + elemPrefix(t.Underlying().(*types.Slice).Elem())
	}
	return "cell.unknown"
}

func elemPrefix(t types.Type) string {
	if s := scalarSort(t); s != "" {
		if _, isNamedStruct := t.Underlying().(*types.Struct); !isNamedStruct {
			return sortTag(s)
		}
	}
	if _, ok := t.Underlying().(*types.Slice); ok {
		return "slice." + elemPrefix(t.Underlying().(*types.Slice).Elem())
	}
	return typePrefix(t)
}

func sortTag(s string) string {
	switch s {
	case SBool:
		return "bool"
	case SStr:
		return "str"
	case SRef:
		return "ref"
	case SIface:
		return "iface"
	case SFn:
		return "fn"
	case SOpq:
		return "opq"
	}
	if n := bvWidth(s); n > 0 {
		return fmt.Sprintf("bv%d", n)
	}
	return sanitize(s)
}

// shortPkg gives a deterministic short name for a package path: repo and
// standard-library packages use their last element, third-party packages the
// last two elements.
func shortPkg(path string) string {
	parts := strings.Split(path, "/")
	last := parts[len(parts)-1]
	if strings.HasPrefix(path, repoModule) {
		if strings.Contains(path, "/cmd/auth/") {
			return "auth_" + last
		}
		return last
	}
	if !strings.Contains(parts[0], ".") { // standard library
		switch path {
		case "math/rand", "crypto/rand", "text/template", "html/template":
			return strings.ReplaceAll(path, "/", "_")
		}
		return last
	}
	if len(last) <= 3 && strings.HasPrefix(last, "v") && len(parts) > 1 {
		parts = parts[:len(parts)-1]
		last = parts[len(parts)-1]
	}
	if len(parts) >= 2 {
		return parts[len(parts)-2] + "_" + last
	}
	return last
}

// ptrPrefix returns the heap prefix a pointer value points into.
func (v Val) ptrPrefixOr() string {
	if v.PtrPrefix != "" {
		return v.PtrPrefix
	}
	if p, ok := v.T.Underlying().(*types.Pointer); ok {
		return typePrefix(p.Elem())
	}
	return "cell.unknown"
}

// slice accessors
func (v Val) sRef() string { return v.L[0] }
func (v Val) sOff() string { return v.L[1] }
func (v Val) sLen() string { return v.L[2] }
func (v Val) sCap() string { return v.L[3] }

func isSlice(t types.Type) bool {
	_, ok := t.Underlying().(*types.Slice)
	return ok
}

func isStructT(t types.Type) bool {
	_, ok := t.Underlying().(*types.Struct)
	return ok
}

func isString(t types.Type) bool {
	b, ok := t.Underlying().(*types.Basic)
	return ok && b.Info()&types.IsString != 0
}

func isInteger(t types.Type) bool {
	b, ok := t.Underlying().(*types.Basic)
	return ok && b.Info()&types.IsInteger != 0
}

func isBool(t types.Type) bool {
	b, ok := t.Underlying().(*types.Basic)
	return ok && b.Info()&types.IsBoolean != 0
}

func isInterface(t types.Type) bool {
	_, ok := t.Underlying().(*types.Interface)
	return ok
}

// fieldSlice returns the sub-value for struct field i.
func (v Val) field(i int) Val {
	st := v.T.Underlying().(*types.Struct)
	off := 0
	for k := 0; k < i; k++ {
		off += len(leavesOf(st.Field(k).Type()))
	}
	n := len(leavesOf(st.Field(i).Type()))
	return Val{T: st.Field(i).Type(), L: v.L[off : off+n]}
}

func (v Val) tupleAt(i int) Val {
	tp := v.T.(*types.Tuple)
	off := 0
	for k := 0; k < i; k++ {
		off += len(leavesOf(tp.At(k).Type()))
	}
	n := len(leavesOf(tp.At(i).Type()))
	return Val{T: tp.At(i).Type(), L: v.L[off : off+n]}
}

func zeroLeaf(sort string) string {
	switch sort {
	case SBool:
		return "false"
	case SStr:
		return "str.empty"
	case SRef:
		return "#x00000000"
	case SIface:
		return "inil"
	case SFn:
		return "fnil"
	case SOpq:
		return "opq.zero"
	}
	if n := bvWidth(sort); n > 0 {
		return bvLit(0, n)
	}
	panic("zeroLeaf: " + sort)
}

func zeroVal(t types.Type) Val {
	ls := leavesOf(t)
	v := Val{T: t, L: make([]string, len(ls))}
	for i, l := range ls {
		v.L[i] = zeroLeaf(l.Sort)
	}
	return v
}

func boolVal(t string) Val { return Val{T: types.Typ[types.Bool], L: []string{t}} }

func bvVal(t string, typ types.Type) Val { return Val{T: typ, L: []string{t}} }
