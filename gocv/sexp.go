package main

// Goal-directed quantifier handling. A goal `forall v. B(v)` is proved by
// refuting `not B(sk)` for a fresh constant sk (Skolemisation of the negated
// goal), and every universally quantified fact assumed on the path (loop
// invariants, callee postconditions, byte-copy axioms) is additionally
// instantiated at sk. The original facts stay in the query, so this only adds
// consequences of what was already assumed; it removes the dependence of such
// proofs on the solvers' instantiation heuristics, which made them slow and
// sensitive to unrelated declarations.

import (
	"fmt"
	"strings"
)

type sx struct {
	atom string
	kids []*sx
}

func parseSexp(s string) *sx {
	pos := 0
	var parse func() *sx
	skipWS := func() {
		for pos < len(s) && (s[pos] == ' ' || s[pos] == '\n' || s[pos] == '\t' || s[pos] == '\r') {
			pos++
		}
	}
	parse = func() *sx {
		skipWS()
		if pos >= len(s) {
			return nil
		}
		if s[pos] == '(' {
			pos++
			n := &sx{kids: []*sx{}}
			for {
				skipWS()
				if pos >= len(s) {
					return n
				}
				if s[pos] == ')' {
					pos++
					return n
				}
				k := parse()
				if k == nil {
					return n
				}
				n.kids = append(n.kids, k)
			}
		}
		start := pos
		switch s[pos] {
		case '|':
			pos++
			for pos < len(s) && s[pos] != '|' {
				pos++
			}
			pos++
		case '"':
			pos++
			for pos < len(s) {
				if s[pos] == '"' {
					if pos+1 < len(s) && s[pos+1] == '"' {
						pos += 2
						continue
					}
					break
				}
				pos++
			}
			pos++
		default:
			for pos < len(s) && s[pos] != ' ' && s[pos] != '\n' && s[pos] != '\t' && s[pos] != '\r' && s[pos] != '(' && s[pos] != ')' {
				pos++
			}
		}
		if pos > len(s) {
			pos = len(s)
		}
		return &sx{atom: s[start:pos]}
	}
	return parse()
}

func (n *sx) write(b *strings.Builder) {
	if n.kids == nil {
		b.WriteString(n.atom)
		return
	}
	b.WriteByte('(')
	for i, k := range n.kids {
		if i > 0 {
			b.WriteByte(' ')
		}
		k.write(b)
	}
	b.WriteByte(')')
}

func (n *sx) String() string {
	var b strings.Builder
	n.write(&b)
	return b.String()
}

func (n *sx) head() string {
	if n.kids != nil && len(n.kids) > 0 && n.kids[0].kids == nil {
		return n.kids[0].atom
	}
	return ""
}

func (n *sx) subst(m map[string]*sx) *sx {
	if n.kids == nil {
		if r, ok := m[n.atom]; ok {
			return r
		}
		return n
	}
	out := &sx{kids: make([]*sx, len(n.kids))}
	for i, k := range n.kids {
		out.kids[i] = k.subst(m)
	}
	return out
}

// stripPattern removes a (! body :pattern ...) annotation.
func stripPattern(n *sx) *sx {
	if n.head() == "!" && len(n.kids) >= 2 {
		return n.kids[1]
	}
	return n
}

type skConst struct {
	name string
	sort string
}

var skCounter int

// skolemizeGoal replaces universally quantified subformulas in positive
// positions of the goal (which is refuted, i.e. asserted negated) by their
// bodies over fresh constants.
func skolemizeGoal(goal string) (string, []skConst) {
	if !strings.Contains(goal, "(forall ") {
		return goal, nil
	}
	root := parseSexp(goal)
	if root == nil {
		return goal, nil
	}
	var sks []skConst
	var walk func(n *sx, positive bool) *sx
	walk = func(n *sx, positive bool) *sx {
		if n.kids == nil {
			return n
		}
		switch n.head() {
		case "forall":
			if positive && len(n.kids) == 3 && len(sks) < 8 {
				m := map[string]*sx{}
				for _, b := range n.kids[1].kids {
					if len(b.kids) != 2 {
						return n
					}
					skCounter++
					name := fmt.Sprintf("sk!%d!%s", skCounter, strings.Trim(b.kids[0].atom, "|"))
					name = strings.ReplaceAll(name, "!q!", "!")
					sks = append(sks, skConst{name, b.kids[1].String()})
					m[b.kids[0].atom] = &sx{atom: name}
				}
				return walk(stripPattern(n.kids[2]).subst(m), true)
			}
			return n
		case "and", "or":
			out := &sx{kids: []*sx{n.kids[0]}}
			for _, k := range n.kids[1:] {
				out.kids = append(out.kids, walk(k, positive))
			}
			return out
		case "=>":
			if len(n.kids) == 3 {
				return &sx{kids: []*sx{n.kids[0], n.kids[1], walk(n.kids[2], positive)}}
			}
		}
		return n
	}
	out := walk(root, true)
	if len(sks) == 0 {
		return goal, nil
	}
	return out.String(), sks
}

// instantiateAt returns, for each assumed fact that contains a single-variable
// universal quantifier in a positive position, the fact with that quantifier
// replaced by its instance at each Skolem constant of the same sort — and then,
// for a few rounds, at every index term mentioning a Skolem constant that the
// instances so far use to read an array (`(select a t)`): byte-copy axioms and
// window facts (`matches`) chain through such derived indices (dst[q] is
// src[soff + (q - doff)], which in turn is stream[c0 + ...]).
func instantiateAt(asserts []string, sks []skConst) []string {
	if len(sks) == 0 {
		return nil
	}
	type site struct {
		root, f *sx
		v, sort string
	}
	var sites []site
	for _, a := range asserts {
		if !strings.Contains(a, "(forall ") || len(a) > 200000 {
			continue
		}
		root := parseSexp(a)
		if root == nil {
			continue
		}
		var find func(n *sx)
		find = func(n *sx) {
			if n.kids == nil {
				return
			}
			switch n.head() {
			case "forall":
				if len(n.kids) == 3 && len(n.kids[1].kids) == 1 && len(n.kids[1].kids[0].kids) == 2 {
					sites = append(sites, site{root, n, n.kids[1].kids[0].kids[0].atom, n.kids[1].kids[0].kids[1].String()})
				}
			case "and":
				for _, k := range n.kids[1:] {
					find(k)
				}
			case "=>":
				if len(n.kids) == 3 {
					find(n.kids[2])
				}
			}
		}
		find(root)
	}
	if len(sites) == 0 {
		return nil
	}
	// which object does an inner array (index -> element) belong to? Used to instantiate a fact
	// about one object's elements only at indices that are used to read that object.
	defs := map[string]*sx{}     // name -> defining term, from (= name term)
	innerRef := map[string]string{} // inner array name -> ref it is stored under, from (= H' (store H ref inner))
	for _, a := range asserts {
		if !strings.HasPrefix(a, "(= ") || len(a) > 4000 {
			continue
		}
		n := parseSexp(a)
		if n == nil || len(n.kids) != 3 || n.kids[1].kids != nil {
			continue
		}
		defs[n.kids[1].atom] = n.kids[2]
		if d := n.kids[2]; d.head() == "store" && len(d.kids) == 4 && d.kids[3].kids == nil {
			innerRef[d.kids[3].atom] = d.kids[2].String()
		}
	}
	var arrayRef func(a *sx, depth int) string
	arrayRef = func(a *sx, depth int) string {
		if depth > 6 {
			return ""
		}
		if a.kids == nil {
			if r, ok := innerRef[a.atom]; ok {
				return r
			}
			if d, ok := defs[a.atom]; ok {
				return arrayRef(d, depth+1)
			}
			return ""
		}
		if a.head() == "select" && len(a.kids) == 3 {
			return a.kids[2].String() // (select heap ref): the object is ref, whatever the heap version
		}
		return ""
	}
	patternRef := func(f *sx) string {
		body := f.kids[2]
		if body.head() != "!" {
			return ""
		}
		for i, k := range body.kids {
			if k.kids == nil && k.atom == ":pattern" && i+1 < len(body.kids) {
				pats := body.kids[i+1]
				if len(pats.kids) > 0 && pats.kids[0].head() == "select" && len(pats.kids[0].kids) == 3 {
					return arrayRef(pats.kids[0].kids[1], 0)
				}
			}
		}
		return ""
	}
	type term struct {
		n    *sx
		sort string
		ref  string // object whose elements are read at this index ("" = any)
	}
	var out []string
	done := map[string]bool{}
	terms := []term{}
	for _, sk := range sks {
		terms = append(terms, term{&sx{atom: sk.name}, sk.sort, ""})
		done[sk.name] = true
	}
	mentionsSk := func(n *sx) bool {
		found := false
		var walk func(n *sx)
		walk = func(n *sx) {
			if found {
				return
			}
			if n.kids == nil {
				if strings.HasPrefix(n.atom, "sk!") {
					found = true
				}
				return
			}
			for _, k := range n.kids {
				walk(k)
			}
		}
		walk(n)
		return found
	}
	for round := 0; round < 3 && len(terms) > 0; round++ {
		var fresh []*sx
		for _, t := range terms {
			for _, st := range sites {
				if st.sort != t.sort {
					continue
				}
				if t.ref != "" {
					if pr := patternRef(st.f); pr != "" && pr != t.ref {
						continue // a fact about another object's elements
					}
				}
				inst := stripPattern(st.f.kids[2]).subst(map[string]*sx{st.v: t.n})
				fresh = append(fresh, inst)
				out = append(out, replaceNode(st.root, st.f, inst).String())
				if len(out) >= 160 {
					return out
				}
			}
		}
		// index terms of array reads in the new instances
		terms = nil
		var collect func(n *sx)
		collect = func(n *sx) {
			if n.kids == nil {
				return
			}
			if n.head() == "select" && len(n.kids) == 3 {
				idx := n.kids[2]
				if idx.kids != nil && mentionsSk(idx) {
					ref := arrayRef(n.kids[1], 0)
					key := idx.String() + "@" + ref
					// only element reads of an object (64-bit index); (select heap ref) has a reference as index
					if ref != "" && !done[key] && len(key) < 500 {
						done[key] = true
						terms = append(terms, term{idx, "(_ BitVec 64)", ref})
					}
				}
			}
			for _, k := range n.kids {
				collect(k)
			}
		}
		for _, f := range fresh {
			collect(f)
		}
		if len(terms) > 16 {
			terms = terms[:16]
		}
	}
	return out
}

func replaceNode(n, target, by *sx) *sx {
	if n == target {
		return by
	}
	if n.kids == nil {
		return n
	}
	out := &sx{kids: make([]*sx, len(n.kids))}
	for i, k := range n.kids {
		out.kids[i] = replaceNode(k, target, by)
	}
	return out
}

// Query builds the refutation query of an obligation.
func (o *Obligation) Query() string {
	goal, sks := skolemizeGoal(o.goal)
	if len(sks) == 0 {
		return o.smt.Query(o.prefix, o.pc, not(o.goal))
	}
	pre := o.prefix
	if pre > len(o.smt.asserts) {
		pre = len(o.smt.asserts)
	}
	var decls []string
	for _, sk := range sks {
		decls = append(decls, fmt.Sprintf("(declare-const %s %s)", sk.name, sk.sort))
	}
	extra := instantiateAt(o.smt.asserts[:pre], sks)
	extra = append(extra, o.pc, not(goal))
	return o.smt.QueryDecls(o.prefix, decls, extra...)
}

// QueryQF is the quantifier-free weakening of Query (see SolveWithQF), or "" when the
// negated goal itself needs quantifiers.
func (o *Obligation) QueryQF() string {
	goal, sks := skolemizeGoal(o.goal)
	if strings.Contains(goal, "(forall ") || strings.Contains(goal, "(exists ") {
		return ""
	}
	pre := o.prefix
	if pre > len(o.smt.asserts) {
		pre = len(o.smt.asserts)
	}
	quantified := false
	var keep []string
	for _, a := range o.smt.asserts[:pre] {
		if strings.Contains(a, "(forall ") || strings.Contains(a, "(exists ") {
			quantified = true
			continue
		}
		keep = append(keep, a)
	}
	if !quantified {
		return "" // nothing to gain: the main query is already quantifier free
	}
	var b strings.Builder
	b.WriteString(strings.Replace(prelude, "(set-logic ALL)", "(set-logic QF_AUFBV)", 1))
	for _, d := range o.smt.decls {
		b.WriteString(d)
		b.WriteByte('\n')
	}
	for _, sk := range sks {
		fmt.Fprintf(&b, "(declare-const %s %s)\n", sk.name, sk.sort)
	}
	for _, a := range keep {
		b.WriteString("(assert " + a + ")\n")
	}
	for _, a := range instantiateAt(o.smt.asserts[:pre], sks) {
		if strings.Contains(a, "(forall ") || strings.Contains(a, "(exists ") {
			continue
		}
		b.WriteString("(assert " + a + ")\n")
	}
	b.WriteString("(assert " + o.pc + ")\n(assert " + not(goal) + ")\n(check-sat)\n")
	return b.String()
}

// splitGoal splits (and a b ..) and (=> p (and a b ..)) into one goal per conjunct.
func splitGoal(goal string) []string {
	root := parseSexp(goal)
	if root == nil {
		return nil
	}
	var split func(n *sx) []*sx
	split = func(n *sx) []*sx {
		if n.kids == nil {
			return []*sx{n}
		}
		switch n.head() {
		case "and":
			var out []*sx
			for _, k := range n.kids[1:] {
				out = append(out, split(k)...)
			}
			return out
		case "=>":
			if len(n.kids) == 3 {
				var out []*sx
				for _, p := range split(n.kids[2]) {
					out = append(out, &sx{kids: []*sx{n.kids[0], n.kids[1], p}})
				}
				return out
			}
		}
		return []*sx{n}
	}
	parts := split(root)
	if len(parts) < 2 || len(parts) > 16 {
		return nil
	}
	var out []string
	for _, p := range parts {
		out = append(out, p.String())
	}
	return out
}
