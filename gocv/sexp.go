package main

// Goal-directed quantifier handling. A goal `forall v. B(v)` is proved by
// refuting `not B(sk)` for a fresh constant sk (Skolemisation of the negated
// goal), and every universally quantified fact assumed on the path (loop
// invariants, callee postconditions, byte-copy axioms) is additionally
// instantiated at sk. The original facts stay in the query, so this only adds
// consequences of what was already assumed; it removes the dependence of such
// proofs on the solvers' instantiation heuristics, which made them slow and
// sensitive to unrelated declarations.

import (
	"fmt"
	"strings"
)

type sx struct {
	atom string
	kids []*sx
}

func parseSexp(s string) *sx {
	pos := 0
	var parse func() *sx
	skipWS := func() {
		for pos < len(s) && (s[pos] == ' ' || s[pos] == '\n' || s[pos] == '\t' || s[pos] == '\r') {
			pos++
		}
	}
	parse = func() *sx {
		skipWS()
		if pos >= len(s) {
			return nil
		}
		if s[pos] == '(' {
			pos++
			n := &sx{kids: []*sx{}}
			for {
				skipWS()
				if pos >= len(s) {
					return n
				}
				if s[pos] == ')' {
					pos++
					return n
				}
				k := parse()
				if k == nil {
					return n
				}
				n.kids = append(n.kids, k)
			}
		}
		start := pos
		switch s[pos] {
		case '|':
			pos++
			for pos < len(s) && s[pos] != '|' {
				pos++
			}
			pos++
		case '"':
			pos++
			for pos < len(s) {
				if s[pos] == '"' {
					if pos+1 < len(s) && s[pos+1] == '"' {
						pos += 2
						continue
					}
					break
				}
				pos++
			}
			pos++
		default:
			for pos < len(s) && s[pos] != ' ' && s[pos] != '\n' && s[pos] != '\t' && s[pos] != '\r' && s[pos] != '(' && s[pos] != ')' {
				pos++
			}
		}
		if pos > len(s) {
			pos = len(s)
		}
		return &sx{atom: s[start:pos]}
	}
	return parse()
}

func (n *sx) write(b *strings.Builder) {
	if n.kids == nil {
		b.WriteString(n.atom)
		return
	}
	b.WriteByte('(')
	for i, k := range n.kids {
		if i > 0 {
			b.WriteByte(' ')
		}
		k.write(b)
	}
	b.WriteByte(')')
}

func (n *sx) String() string {
	var b strings.Builder
	n.write(&b)
	return b.String()
}

func (n *sx) head() string {
	if n.kids != nil && len(n.kids) > 0 && n.kids[0].kids == nil {
		return n.kids[0].atom
	}
	return ""
}

func (n *sx) subst(m map[string]*sx) *sx {
	if n.kids == nil {
		if r, ok := m[n.atom]; ok {
			return r
		}
		return n
	}
	out := &sx{kids: make([]*sx, len(n.kids))}
	for i, k := range n.kids {
		out.kids[i] = k.subst(m)
	}
	return out
}

// stripPattern removes a (! body :pattern ...) annotation.
func stripPattern(n *sx) *sx {
	if n.head() == "!" && len(n.kids) >= 2 {
		return n.kids[1]
	}
	return n
}

type skConst struct {
	name string
	sort string
}

var skCounter int

// skolemizeGoal replaces universally quantified subformulas in positive
// positions of the goal (which is refuted, i.e. asserted negated) by their
// bodies over fresh constants.
func skolemizeGoal(goal string) (string, []skConst) {
	if !strings.Contains(goal, "(forall ") {
		return goal, nil
	}
	root := parseSexp(goal)
	if root == nil {
		return goal, nil
	}
	var sks []skConst
	var walk func(n *sx, positive bool) *sx
	walk = func(n *sx, positive bool) *sx {
		if n.kids == nil {
			return n
		}
		switch n.head() {
		case "forall":
			if positive && len(n.kids) == 3 && len(sks) < 8 {
				m := map[string]*sx{}
				for _, b := range n.kids[1].kids {
					if len(b.kids) != 2 {
						return n
					}
					skCounter++
					name := fmt.Sprintf("sk!%d!%s", skCounter, strings.Trim(b.kids[0].atom, "|"))
					name = strings.ReplaceAll(name, "!q!", "!")
					sks = append(sks, skConst{name, b.kids[1].String()})
					m[b.kids[0].atom] = &sx{atom: name}
				}
				return walk(stripPattern(n.kids[2]).subst(m), true)
			}
			return n
		case "and", "or":
			out := &sx{kids: []*sx{n.kids[0]}}
			for _, k := range n.kids[1:] {
				out.kids = append(out.kids, walk(k, positive))
			}
			return out
		case "=>":
			if len(n.kids) == 3 {
				return &sx{kids: []*sx{n.kids[0], n.kids[1], walk(n.kids[2], positive)}}
			}
		}
		return n
	}
	out := walk(root, true)
	if len(sks) == 0 {
		return goal, nil
	}
	return out.String(), sks
}

// instantiateAt returns, for each assumed fact that contains a single-variable
// universal quantifier in a positive position, the fact with that quantifier
// replaced by its instance at each Skolem constant of the same sort.
func instantiateAt(asserts []string, sks []skConst) []string {
	var out []string
	if len(sks) == 0 {
		return nil
	}
	for _, a := range asserts {
		if !strings.Contains(a, "(forall ") || len(a) > 200000 {
			continue
		}
		root := parseSexp(a)
		if root == nil {
			continue
		}
		// collect positive single-variable foralls
		type site struct{ n *sx }
		var sites []*sx
		var find func(n *sx)
		find = func(n *sx) {
			if n.kids == nil {
				return
			}
			switch n.head() {
			case "forall":
				if len(n.kids) == 3 && len(n.kids[1].kids) == 1 && len(n.kids[1].kids[0].kids) == 2 {
					sites = append(sites, n)
				}
			case "and":
				for _, k := range n.kids[1:] {
					find(k)
				}
			case "=>":
				if len(n.kids) == 3 {
					find(n.kids[2])
				}
			}
		}
		find(root)
		for _, f := range sites {
			v := f.kids[1].kids[0].kids[0].atom
			sort := f.kids[1].kids[0].kids[1].String()
			for _, sk := range sks {
				if sk.sort != sort {
					continue
				}
				inst := stripPattern(f.kids[2]).subst(map[string]*sx{v: {atom: sk.name}})
				out = append(out, replaceNode(root, f, inst).String())
				if len(out) >= 96 {
					return out
				}
			}
		}
	}
	return out
}

func replaceNode(n, target, by *sx) *sx {
	if n == target {
		return by
	}
	if n.kids == nil {
		return n
	}
	out := &sx{kids: make([]*sx, len(n.kids))}
	for i, k := range n.kids {
		out.kids[i] = replaceNode(k, target, by)
	}
	return out
}

// Query builds the refutation query of an obligation.
func (o *Obligation) Query() string {
	goal, sks := skolemizeGoal(o.goal)
	if len(sks) == 0 {
		return o.smt.Query(o.prefix, o.pc, not(o.goal))
	}
	pre := o.prefix
	if pre > len(o.smt.asserts) {
		pre = len(o.smt.asserts)
	}
	var decls []string
	for _, sk := range sks {
		decls = append(decls, fmt.Sprintf("(declare-const %s %s)", sk.name, sk.sort))
	}
	extra := instantiateAt(o.smt.asserts[:pre], sks)
	extra = append(extra, o.pc, not(goal))
	return o.smt.QueryDecls(o.prefix, decls, extra...)
}
