package main

import (
	"os"
	"fmt"
	"sort"
	"go/ast"
	"go/parser"
	"go/types"
	"strings"

	"golang.org/x/tools/go/ssa"
)

const maxInlineDepth = 6

func (fr *Frame) locals(x *Exec, st *State) map[string]Val {
	m := map[string]Val{}
	// source-level names: the latest definition that dominates the current block
	for name, defs := range fr.namedDefs {
		// a variable that lives in memory (address taken, e.g. captured by a closure) is read from
		// its cell: the value references recorded at its individual reads are stale copies
		addr := -1
		for i := len(defs) - 1; i >= 0; i-- {
			d := defs[i]
			if d.isAddr && (fr.curBlock == nil || d.block == fr.curBlock || d.block.Dominates(fr.curBlock)) {
				addr = i
				break
			}
		}
		for i := len(defs) - 1; i >= 0; i-- {
			if addr >= 0 {
				i = addr
			}
			d := defs[i]
			if fr.curBlock == nil || d.block == fr.curBlock || d.block.Dominates(fr.curBlock) {
				if d.isAddr {
					if pt, ok := d.val.T.Underlying().(*types.Pointer); ok {
						m[name] = x.loadVal(st, d.val, pt.Elem())
					}
				} else {
					m[name] = d.val
				}
				break
			}
		}
	}
	for v, val := range fr.vals {
		if phi, ok := v.(*ssa.Phi); ok && phi.Comment != "" {
			if fr.curBlock == nil || phi.Block() == fr.curBlock || phi.Block().Dominates(fr.curBlock) {
				if _, have := m[phi.Comment]; !have || phi.Block() == fr.curBlock {
					m[phi.Comment] = val
				}
			}
		}
	}
	return m
}

func (x *Exec) doCall(fr *Frame, st *State, call *ssa.CallCommon, instr ssa.Instruction, isGo bool) ([]Val, bool) {
	var args []Val
	for _, a := range call.Args {
		args = append(args, x.operand(fr, st, a))
	}
	fv := x.operand(fr, st, call.Value)
	return x.doCallVals(fr, st, call, instr, fv, args, isGo), true
}

func resultTypes(sig *types.Signature) []types.Type {
	var ts []types.Type
	for i := 0; i < sig.Results().Len(); i++ {
		ts = append(ts, sig.Results().At(i).Type())
	}
	return ts
}

func (x *Exec) doCallVals(fr *Frame, st *State, call *ssa.CallCommon, instr ssa.Instruction, fv Val, args []Val, isGo bool) []Val {
	sig := call.Signature()
	x.siteClauses(fr, st, call, instr, fv, args)
	if call.IsInvoke() {
		recv := fv
		x.safetyOblige(fr, st, "nil", instr, "", nonNilTerm(recv))
		it := call.Value.Type()
		// statically known dynamic type: resolve the method (unless the interface method has a contract)
		if recv.Dyn != nil && x.prog.lookupTypeContract("iface", it, "."+call.Method.Name()) == nil {
			if f := x.prog.ssa.LookupMethod(recv.Dyn.T, call.Method.Pkg(), call.Method.Name()); f != nil {
				return x.callStatic(fr, st, f, append([]Val{*recv.Dyn}, args...), nil, instr, isGo)
			}
		}
		if x.prog.lookupTypeContract("iface", it, "."+call.Method.Name()) == nil {
			if impl := x.prog.singleImpl(it); impl != nil {
				if f := x.prog.ssa.LookupMethod(impl, call.Method.Pkg(), call.Method.Name()); f != nil {
					x.trusted["devirtualized:"+qualifiedTypeName(it)+"="+types.TypeString(impl, nil)] = true
					x.smt.Assert(implies(and(st.pc, not(eq(recv.L[0], "inil"))), eq(app("ityp", recv.L[0]), x.typeID(impl))))
					pv := x.ifacePayload(st, recv, impl)
					return x.callStatic(fr, st, f, append([]Val{pv}, args...), nil, instr, isGo)
				}
			}
		}
		key := "iface:" + qualifiedTypeName(it) + "." + call.Method.Name()
		if ctr := x.prog.lookupTypeContract("iface", it, "."+call.Method.Name()); ctr != nil {
			return x.applyContract(fr, st, ctr, sig, append([]Val{recv}, args...), recvName(ctr, "self"), instr, isGo, key)
		}
		if m, ok := ifaceModels[qualifiedTypeName(it)+"."+call.Method.Name()]; ok {
			return m(x, fr, st, append([]Val{recv}, args...), instr, sig)
		}
		return x.havocCall(fr, st, key, sig, append([]Val{recv}, args...), instr)
	}
	switch v := call.Value.(type) {
	case *ssa.Builtin:
		return x.builtin(fr, st, v, args, instr, sig)
	case *ssa.Function:
		return x.callStatic(fr, st, v, args, nil, instr, isGo)
	case *ssa.MakeClosure:
		return x.callStatic(fr, st, v.Fn.(*ssa.Function), args, fv.Bind, instr, isGo)
	}
	if fv.Fn != nil {
		return x.callStatic(fr, st, fv.Fn, args, fv.Bind, instr, isGo)
	}
	// dynamic call through a function value
	x.safetyOblige(fr, st, "nilfunc", instr, "", nonNilTerm(fv))
	key := "functype:" + qualifiedTypeName(call.Value.Type())
	if ctr := x.prog.lookupTypeContract("functype", call.Value.Type(), ""); ctr != nil {
		return x.applyContract(fr, st, ctr, sig, args, "", instr, isGo, key)
	}
	return x.havocCall(fr, st, key, sig, args, instr)
}

func recvName(ctr *Contract, def string) string { return def }

func qualifiedTypeName(t types.Type) string {
	if n, ok := t.(*types.Named); ok {
		if n.Obj().Pkg() != nil {
			return n.Obj().Pkg().Path() + "." + n.Obj().Name()
		}
		return n.Obj().Name()
	}
	if a, ok := t.(*types.Alias); ok {
		return qualifiedTypeName(types.Unalias(a))
	}
	return types.TypeString(t, nil)
}

func (x *Exec) callStatic(fr *Frame, st *State, fn *ssa.Function, args []Val, binds []Val, instr ssa.Instruction, isGo bool) []Val {
	sig := fn.Signature
	key := x.prog.funcKey(fn)
	// contracts first
	if ctr := x.prog.contractFor(fn); ctr != nil && !(fr.top && fr.fn == fn && false) {
		if x.useContract(ctr, isGo) {
			return x.applyContract(fr, st, ctr, sig, args, "", instr, isGo, key)
		}
	}
	if m, ok := nativeModels[fn.String()]; ok {
		x.trusted["model:"+fn.String()] = true
		return m(x, fr, st, args, instr, sig)
	}
	if kind, ok := externKind(fn); ok {
		switch kind {
		case "noreturn":
			x.trusted["noreturn:"+fn.String()] = true
			st.dead = true
			return x.freshResults(st, fn.Name(), sig)
		case "pure":
			x.trusted["pure:"+fn.String()] = true
			return x.pureCall(st, fn, sig, args)
		}
	}
	if isGo {
		// spawned goroutine without contract: body verified separately, no effect here
		return nil
	}
	if x.prog.inRepo(fn) && len(fn.Blocks) > 0 && fr.depth < maxInlineDepth && !x.onStack(fr, fn) && !x.noInline {
		return x.inline(fr, st, fn, args, binds, instr)
	}
	return x.havocCall(fr, st, key, sig, args, instr)
}

func (x *Exec) useContract(ctr *Contract, isGo bool) bool {
	for _, c := range ctr.Clauses {
		if c.Kind == "inline" && !isGo {
			return false
		}
	}
	for _, c := range ctr.Clauses {
		switch c.Kind {
		case "requires", "ensures", "assigns", "noreturn", "pure", "ghostset", "maypanic":
			return true
		}
	}
	return false
}

func (x *Exec) onStack(fr *Frame, fn *ssa.Function) bool {
	for f := fr; f != nil; f = f.parent {
		if f.fn == fn {
			return true
		}
	}
	return false
}

func (x *Exec) freshResults(st *State, hint string, sig *types.Signature) []Val {
	var rs []Val
	for i, t := range resultTypes(sig) {
		rs = append(rs, x.freshVal(st, fmt.Sprintf("r.%s.%d", hint, i), t))
	}
	return rs
}

// pureCall: deterministic, effect-free extern: results are uninterpreted
// functions of the scalar arguments.
func (x *Exec) pureCall(st *State, fn *ssa.Function, sig *types.Signature, args []Val) []Val {
	var as, sorts []string
	det := true
	for _, a := range args {
		ls := leavesOf(a.T)
		if len(ls) != len(a.L) || isSlice(a.T) {
			det = false
			break
		}
		for i, l := range ls {
			as = append(as, a.L[i])
			sorts = append(sorts, l.Sort)
		}
	}
	if !det || len(args) == 0 {
		x.bumpAlloc(st)
		return x.freshResults(st, fn.Name(), sig)
	}
	var rs []Val
	for i, t := range resultTypes(sig) {
		ls := leavesOf(t)
		if len(ls) != 1 {
			if isSlice(t) || len(ls) == 0 {
				x.bumpAlloc(st)
				rs = append(rs, x.freshVal(st, "r."+fn.Name(), t))
				continue
			}
			v := Val{T: t, L: make([]string, len(ls))}
			for k, l := range ls {
				name := fmt.Sprintf("ext.%s.%d.%d", sanitize(fn.String()), i, k)
				x.smt.DeclareFun(name, sorts, l.Sort)
				v.L[k] = app(name, as...)
			}
			rs = append(rs, v)
			continue
		}
		name := fmt.Sprintf("ext.%s.%d", sanitize(fn.String()), i)
		x.smt.DeclareFun(name, sorts, ls[0].Sort)
		v := Val{T: t, L: []string{app(name, as...)}}
		if ls[0].IsRef {
			x.bumpAlloc(st)
		}
		x.assumeTypeInv(st, v)
		rs = append(rs, v)
	}
	return rs
}

// havocCall: unknown callee. Results are unconstrained; memory directly
// reachable from pointer/slice arguments is havocked (shallow).
func (x *Exec) havocCall(fr *Frame, st *State, key string, sig *types.Signature, args []Val, instr ssa.Instruction) []Val {
	x.trusted["havoc:"+key] = true
	for _, a := range args {
		x.havocReachable(st, a)
	}
	x.bumpAlloc(st)
	return x.freshResults(st, "ext", sig)
}

func (x *Exec) havocReachable(st *State, a Val) {
	if a.T == nil {
		return
	}
	if isInterface(a.T) {
		if a.Dyn != nil {
			x.havocReachable(st, *a.Dyn)
		}
		return
	}
	switch u := a.T.Underlying().(type) {
	case *types.Pointer:
		prefix := a.ptrPrefixOr()
		for hk := range x.heapSort {
			if hk == prefix || strings.HasPrefix(hk, prefix+".") || strings.HasPrefix(hk, prefix+"#") {
				x.havocAt(st, hk, a.L[0], a.PtrIndex)
			}
		}
		_ = u
	case *types.Slice:
		prefix := "arr." + elemPrefix(u.Elem())
		for hk := range x.heapSort {
			if hk == prefix || strings.HasPrefix(hk, prefix+".") || strings.HasPrefix(hk, prefix+"#") {
				x.havocAt(st, hk, a.sRef(), "")
			}
		}
	}
}

func (x *Exec) havocAt(st *State, region, base, index string) {
	es := x.heapSort[region]
	is := x.heap2[region]
	a := x.heapArr(st, region)
	var n string
	if is != "" && index == "" {
		n = store(a, base, x.smt.Fresh("hv", "(Array "+is+" "+es+")"))
	} else if is != "" {
		n = store(a, base, store(sel(a, base), index, x.smt.Fresh("hv", es)))
	} else {
		n = store(a, base, x.smt.Fresh("hv", es))
	}
	c := x.smt.Fresh("H."+region, x.arraySort(region))
	x.smt.Assert(eq(c, n))
	st.heap[region] = c
	if !x.freshRefs[base] {
		st.markDirty(region)
	}
}

// ---------- inlining ----------

func (x *Exec) inline(fr *Frame, st *State, fn *ssa.Function, args []Val, binds []Val, instr ssa.Instruction) []Val {
	x.inlined[fn.String()] = true
	nf := x.newFrame(fn, fr)
	nf.ctr = x.prog.contractFor(fn)
	if nf.ctr != nil {
		env := x.bindFormals(nf.ctr, fn.Signature, args, fn)
		for i, fv := range fn.FreeVars {
			if i < len(binds) {
				env[fv.Name()] = binds[i]
			}
		}
		for _, cl := range nf.ctr.Clauses {
			if cl.Kind != "requires" || cl.Spawn {
				continue
			}
			sc := &specCtx{x: x, pkg: x.calleePkg(nf.ctr, fn), env: env, st: st, old: st}
			g := sc.node(cl.Expr)
			if len(g.L) != 1 {
				continue
			}
			lbl := cl.Label
			if lbl == "" {
				lbl = fmt.Sprintf("%d", clauseOrdinal(nf.ctr, cl))
			}
			name := x.siteName(fmt.Sprintf("%s/call.%s.requires.%s@%s", x.prog.relName(x.topFn), shortKey(nf.ctr.Key), lbl, x.srcText(instr)))
			x.oblige(st, "call.requires", name, cl.Tags, instr.Pos(), g.L[0])
			x.smt.Assert(implies(st.pc, g.L[0]))
		}
	}
	for i, p := range fn.Params {
		if i < len(args) {
			v := args[i]
			nf.vals[p] = v
			nf.params[p.Name()] = v
		}
	}
	for i, fv := range fn.FreeVars {
		if i < len(binds) {
			nf.vals[fv] = binds[i]
			nf.params[fv.Name()] = binds[i]
		} else {
			nf.vals[fv] = x.freshVal(st, "fv."+fv.Name(), fv.Type())
		}
	}
	x.aliasEnv(fn, nf.params)
	nf.entry = st.clone()
	x.execBody(nf, st.clone())
	m := x.mergeStates(nf.retStates)
	*st = *m
	if m.dead {
		return x.freshResults(st, fn.Name(), fn.Signature)
	}
	// merge results
	var live []*State
	var vals [][]Val
	for i, s := range nf.retStates {
		if s != nil && !s.dead && s.pc != "false" {
			live = append(live, s)
			vals = append(vals, nf.retVals[i])
		}
	}
	var rs []Val
	for ri, t := range resultTypes(fn.Signature) {
		if len(vals) == 1 {
			rs = append(rs, vals[0][ri])
			continue
		}
		ls := leavesOf(t)
		r := Val{T: t, L: make([]string, len(ls))}
		for li := range ls {
			var terms []string
			for _, vs := range vals {
				terms = append(terms, vs[ri].L[li])
			}
			r.L[li] = x.mergeTerms(live, terms, "ret."+fn.Name(), ls[li].Sort)
		}
		// keep static info when all agree
		first := vals[0][ri]
		same := true
		for _, vs := range vals[1:] {
			if vs[ri].Fn != first.Fn || vs[ri].PtrPrefix != first.PtrPrefix || vs[ri].PtrIndex != first.PtrIndex {
				same = false
			}
		}
		if same {
			r.Fn, r.Bind, r.PtrPrefix, r.PtrIndex = first.Fn, first.Bind, first.PtrPrefix, first.PtrIndex
		}
		rs = append(rs, r)
	}
	return rs
}

func (x *Exec) newFrame(fn *ssa.Function, parent *Frame) *Frame {
	f := &Frame{fn: fn, vals: map[ssa.Value]Val{}, params: map[string]Val{}, extras: map[ssa.Value][]Val{},
		rangeOf: map[*ssa.Range]Val{}, static: map[string]Val{}, named: map[string]Val{}, namedAddr: map[string]Val{}, namedDefs: map[string][]namedDef{}, parent: parent}
	if parent != nil {
		f.depth = parent.depth + 1
	}
	return f
}

// ---------- contracts at call sites ----------

func (x *Exec) bindFormals(ctr *Contract, sig *types.Signature, args []Val, fn *ssa.Function) map[string]Val {
	env := map[string]Val{}
	var names []string
	np := sig.Params().Len()
	if len(args) == np+1 {
		n := "self"
		if sig.Recv() != nil && sig.Recv().Name() != "" && sig.Recv().Name() != "_" {
			n = sig.Recv().Name()
		}
		names = append(names, n)
		env["self"] = args[0]
	}
	for i := 0; i < np; i++ {
		n := sig.Params().At(i).Name()
		if n == "" || n == "_" {
			n = fmt.Sprintf("arg%d", i)
		}
		if ctr != nil && i < len(ctr.Params) {
			n = ctr.Params[i]
		}
		names = append(names, n)
	}
	for i, a := range args {
		if i < len(names) {
			env[names[i]] = a
		}
	}
	if fn != nil {
		x.aliasEnv(fn, env)
	}
	return env
}

func resultNames(ctr *Contract, sig *types.Signature) []string {
	var names []string
	for i := 0; i < sig.Results().Len(); i++ {
		n := sig.Results().At(i).Name()
		if n == "" || n == "_" {
			if sig.Results().Len() == 1 {
				n = "result"
			} else {
				n = fmt.Sprintf("result%d", i)
			}
		}
		names = append(names, n)
	}
	if ctr != nil {
		for i, n := range ctr.Results {
			if i < len(names) {
				names[i] = n
			}
		}
	}
	return names
}

func (x *Exec) calleePkg(ctr *Contract, fn *ssa.Function) *types.Package {
	if fn != nil && fn.Pkg != nil {
		return fn.Pkg.Pkg
	}
	if fn != nil && fn.Parent() != nil && fn.Parent().Pkg != nil {
		return fn.Parent().Pkg.Pkg
	}
	return nil
}

func (x *Exec) applyContract(fr *Frame, st *State, ctr *Contract, sig *types.Signature, args []Val, _ string, instr ssa.Instruction, isGo bool, key string) []Val {
	x.trusted["contract:"+ctr.Key] = true
	var fn *ssa.Function
	if ctr.Kind == "func" || ctr.Kind == "extern" {
		fn = x.prog.funcByKey[ctr.Key]
	}
	env := x.bindFormals(ctr, sig, args, fn)
	pkg := x.calleePkg(ctr, fn)
	if pkg == nil && ctr.Pkg != "" {
		pkg = x.prog.pkgByPath[ctr.Pkg]
	}
	if pkg == nil && fr.fn.Pkg != nil {
		pkg = fr.fn.Pkg.Pkg
	}
	ev := func(n *SpecNode, s, old *State) string {
		c := &specCtx{x: x, pkg: pkg, env: env, st: s, old: old}
		v := c.node(n)
		if len(v.L) != 1 {
			return c.fail("non-boolean clause %q", n.Text).L[0]
		}
		return v.L[0]
	}
	site := x.srcText(instr)
	short := shortKey(ctr.Key)
	// implicit preconditions of in-repo functions (see verifyFunction)
	if ctr.Kind == "func" && x.safety {
		for i, a := range args {
			for _, g := range x.implicitRequires(st, sig, i, len(args), a) {
				name := x.siteName(fmt.Sprintf("%s/call.%s.implicit.arg%d@%s", x.prog.relName(x.topFn), short, i, site))
				x.oblige(st, "nil", name, x.safetyTag, instr.Pos(), g)
			}
		}
	}
	// preconditions
	for _, c := range ctr.Clauses {
		if c.Kind != "requires" || (c.Spawn && !isGo) {
			continue
		}
		g := ev(c.Expr, st, st)
		lbl := c.Label
		if lbl == "" {
			lbl = fmt.Sprintf("%d", clauseOrdinal(ctr, c))
		}
		name := x.siteName(fmt.Sprintf("%s/call.%s.requires.%s@%s", x.prog.relName(x.topFn), short, lbl, site))
		x.oblige(st, "call.requires", name, c.Tags, instr.Pos(), g)
		x.smt.Assert(implies(st.pc, g))
	}
	old := st.clone()
	noret := false
	// frame
	for _, c := range ctr.Clauses {
		if c.Spawn != isGo {
			continue
		}
		switch c.Kind {
		case "assigns":
			for _, tgt := range c.Targets {
				x.havocTarget(st, old, tgt, pkg, env)
			}
		case "noreturn":
			noret = true
		}
	}
	clauses := ctr.Clauses
	if sp := x.sitePanics(fr, instr); sp != nil {
		// the function under verification says that calls of this callee may panic here
		// ("site <callee> maypanic"): more behaviours than the callee's contract gives, never fewer
		clauses = append(append([]*Clause{}, clauses...), &Clause{Kind: "maypanic", Tags: sp.Tags})
	}
	for _, c := range clauses {
		if c.Kind == "maypanic" && !isGo {
			// the callee may panic instead of returning, possibly after some of its effects:
			// the panic state is the state with the callee's frame havocked and no postcondition
			if ps := x.panicEdge(fr, st, instr, shortKey(ctr.Key), c.Tags); ps != nil {
				// what the callee guarantees even when it panics
				for _, oc := range ctr.Clauses {
					if oc.Kind == "onpanic" {
						x.smt.Assert(implies(ps.pc, ev(oc.Expr, ps, old)))
					}
				}
			}
			break
		}
	}
	x.bumpAlloc(st)
	var rs []Val
	if !isGo {
		rs = x.freshResults(st, short, sig)
		for i, n := range resultNames(ctr, sig) {
			env[n] = rs[i]
		}
		if fn != nil {
			x.aliasEnv(fn, env) // named results that were renamed since the contract was written
		}
	}
	for _, c := range ctr.Clauses {
		if c.Kind == "ghostset" && c.Spawn == isGo {
			x.applyGhostSet(st, old, c, pkg, env)
		}
	}
	for _, c := range ctr.Clauses {
		if c.Kind != "ensures" || c.Spawn != isGo || c.Local {
			continue
		}
		g := ev(c.Expr, st, old)
		x.smt.Assert(implies(st.pc, g))
	}
	if noret {
		st.dead = true
	}
	return rs
}

func clauseOrdinal(ctr *Contract, c *Clause) int {
	n := 0
	for _, o := range ctr.Clauses {
		if o == c {
			return n
		}
		if o.Kind == c.Kind {
			n++
		}
	}
	return n
}

func shortKey(key string) string {
	if i := strings.LastIndex(key, "|"); i >= 0 {
		return key[i+1:]
	}
	if i := strings.Index(key, ":"); i >= 0 {
		key = key[i+1:]
	}
	if i := strings.LastIndex(key, "/"); i >= 0 {
		key = key[i+1:]
	}
	return key
}

// havocTarget havocs one assigns target: #ghost, *, an l-value expression,
// region(Type.field) or contents(slice).
func (x *Exec) havocTarget(st, old *State, tgt string, pkg *types.Package, env map[string]Val) {
	tgt = strings.TrimSpace(tgt)
	switch {
	case tgt == "*":
		for k := range x.heapSort {
			x.havocRegion(st, k)
		}
		for g, v := range st.ghost {
			st.ghost[g] = x.freshVal(st, "g."+g, v.T)
		}
		x.warn("assigns * used")
		return
	case strings.HasPrefix(tgt, "#"):
		g := tgt[1:]
		if v, ok := st.ghost[g]; ok {
			st.ghost[g] = x.freshVal(st, "g."+g, v.T)
		} else {
			x.unsupported("assigns: unknown ghost %s", tgt)
		}
		return
	case strings.HasPrefix(tgt, "region(") && strings.Contains(tgt, ") at "):
		// region(R) at E: the part of region R that belongs to object E
		k := strings.Index(tgt, ") at ")
		reg := x.prog.fixRegion(tgt[7:k])
		e, err := parser.ParseExpr(ghostRe.ReplaceAllString(tgt[k+5:], "ghost__$1"))
		if err != nil {
			x.unsupported("assigns target %q: %v", tgt, err)
			return
		}
		sc := &specCtx{x: x, pkg: pkg, env: env, st: old, old: old}
		ov := sc.expr(e, nil)
		base := ov.L[0]
		if isInterface(ov.T) {
			base = app("iref", ov.L[0])
		}
		hit := false
		for k2 := range x.heapSort {
			if k2 == reg || strings.HasPrefix(k2, reg+".") || strings.HasPrefix(k2, reg+"#") {
				x.havocAt(st, k2, base, "")
				hit = true
			}
		}
		if !hit {
			x.pendingHavoc(st, reg)
		}
		return
	case strings.HasPrefix(tgt, "region(") && strings.HasSuffix(tgt, ")"):
		reg := x.prog.fixRegion(tgt[7 : len(tgt)-1])
		hit := false
		for k := range x.heapSort {
			if k == reg || strings.HasPrefix(k, reg+".") || strings.HasPrefix(k, reg+"#") || strings.HasPrefix(k, reg+":") {
				x.havocRegion(st, k)
				hit = true
			}
		}
		if !hit {
			x.pendingHavoc(st, reg)
		}
		return
	case strings.HasPrefix(tgt, "pointees(") && strings.HasSuffix(tgt, ")"):
		// pointees(xs): the objects pointed to by the (statically known) elements of a []interface{} argument
		e, err := parser.ParseExpr(ghostRe.ReplaceAllString(tgt[9:len(tgt)-1], "ghost__$1"))
		if err != nil {
			x.unsupported("assigns target %q: %v", tgt, err)
			return
		}
		c := &specCtx{x: x, pkg: pkg, env: env, st: old, old: old}
		v := c.expr(e, nil)
		if !isSlice(v.T) {
			x.unsupported("pointees(%s): not a slice", tgt)
			return
		}
		prefix := "arr.iface@" + v.sRef() + "@"
		found := false
		for k, sv := range x.static {
			if strings.HasPrefix(k, prefix) && sv.Dyn != nil {
				x.havocReachable(st, *sv.Dyn)
				found = true
			}
		}
		if !found {
			x.warn("pointees(%s): no statically known elements; nothing havocked", tgt)
		}
		return
	case strings.HasPrefix(tgt, "contents(") && strings.HasSuffix(tgt, ")"):
		e, err := parser.ParseExpr(ghostRe.ReplaceAllString(tgt[9:len(tgt)-1], "ghost__$1"))
		if err != nil {
			x.unsupported("assigns target %q: %v", tgt, err)
			return
		}
		c := &specCtx{x: x, pkg: pkg, env: env, st: old, old: old}
		v := c.expr(e, nil)
		x.havocReachable(st, v)
		return
	}
	e, err := parser.ParseExpr(ghostRe.ReplaceAllString(tgt, "ghost__$1"))
	if err != nil {
		x.unsupported("assigns target %q: %v", tgt, err)
		return
	}
	c := &specCtx{x: x, pkg: pkg, env: env, st: old, old: old}
	p := c.addr(e, nil)
	pt, ok := p.T.Underlying().(*types.Pointer)
	if !ok {
		return
	}
	fresh := x.freshVal(st, "asg", pt.Elem())
	x.storeVal(st, p, fresh)
}

// assignsRegions returns region prefixes named by a contract's assigns clauses
// (used for loop modification sets); all=true when it assigns *.
func (x *Exec) assignsRegions(ctr *Contract, isGo bool, sig *types.Signature) (regions map[string]bool, ghosts map[string]bool, all bool) {
	regions, ghosts = map[string]bool{}, map[string]bool{}
	for _, c := range ctr.Clauses {
		if c.Kind != "assigns" || c.Spawn != isGo {
			continue
		}
		for _, tgt := range c.Targets {
			tgt = strings.TrimSpace(tgt)
			switch {
			case tgt == "*":
				all = true
			case strings.HasPrefix(tgt, "#"):
				ghosts[tgt[1:]] = true
			case strings.HasPrefix(tgt, "region(") && strings.Contains(tgt, ") at "):
				regions[x.prog.fixRegion(tgt[7:strings.Index(tgt, ") at ")])] = true
			case strings.HasPrefix(tgt, "region("):
				regions[x.prog.fixRegion(tgt[7:len(tgt)-1])] = true
			case strings.HasPrefix(tgt, "contents("):
				e, err := parser.ParseExpr(tgt[9 : len(tgt)-1])
				if err == nil {
					if t := x.staticTypeOfSpec(ctr, sig, e); t != nil {
						if s, ok := t.Underlying().(*types.Slice); ok {
							regions["arr."+elemPrefix(s.Elem())] = true
						} else if p, ok := t.Underlying().(*types.Pointer); ok {
							regions[typePrefix(p.Elem())] = true
						}
					} else {
						all = true
					}
				}
			default:
				e, err := parser.ParseExpr(tgt)
				if err != nil {
					all = true
					continue
				}
				if r := x.staticRegionOfSpec(ctr, sig, e); r != "" {
					regions[r] = true
				} else {
					all = true
				}
			}
		}
	}
	return
}

// staticTypeOfSpec computes the Go type of a simple spec l-value (ident and
// selector chains over parameters) without evaluating it.
func (x *Exec) staticTypeOfSpec(ctr *Contract, sig *types.Signature, e ast.Expr) types.Type {
	switch t := e.(type) {
	case *ast.ParenExpr:
		return x.staticTypeOfSpec(ctr, sig, t.X)
	case *ast.Ident:
		// the contract may use the names of receiver and parameters from before a rename
		names := map[string]bool{t.Name: true}
		if fn := x.prog.funcByKey[ctr.Key]; fn != nil {
			for _, c := range x.prog.renamedLocals(fn)[t.Name] {
				names[c] = true
			}
		}
		if sig.Recv() != nil && (names[sig.Recv().Name()] || t.Name == "self") {
			return sig.Recv().Type()
		}
		for i := 0; i < sig.Params().Len(); i++ {
			n := sig.Params().At(i).Name()
			if i < len(ctr.Params) {
				n = ctr.Params[i]
			}
			if names[n] {
				return sig.Params().At(i).Type()
			}
		}
		if pkg := x.prog.pkgByPath[ctr.Pkg]; pkg != nil {
			if obj, ok := pkg.Scope().Lookup(t.Name).(*types.Var); ok {
				return obj.Type()
			}
		}
	case *ast.SelectorExpr:
		xt := x.staticTypeOfSpec(ctr, sig, t.X)
		if xt == nil {
			return nil
		}
		if p, ok := xt.Underlying().(*types.Pointer); ok {
			xt = p.Elem()
		}
		if st, ok := xt.Underlying().(*types.Struct); ok {
			fname := x.prog.fieldName(xt, t.Sel.Name)
			for i := 0; i < st.NumFields(); i++ {
				if st.Field(i).Name() == fname {
					return st.Field(i).Type()
				}
			}
		}
	case *ast.StarExpr:
		xt := x.staticTypeOfSpec(ctr, sig, t.X)
		if xt != nil {
			if p, ok := xt.Underlying().(*types.Pointer); ok {
				return p.Elem()
			}
		}
	}
	return nil
}

func (x *Exec) staticRegionOfSpec(ctr *Contract, sig *types.Signature, e ast.Expr) string {
	switch t := e.(type) {
	case *ast.ParenExpr:
		return x.staticRegionOfSpec(ctr, sig, t.X)
	case *ast.SelectorExpr:
		xt := x.staticTypeOfSpec(ctr, sig, t.X)
		if xt == nil {
			return ""
		}
		if p, ok := xt.Underlying().(*types.Pointer); ok {
			return typePrefix(p.Elem()) + "." + x.prog.fieldName(p.Elem(), t.Sel.Name)
		}
		// field of embedded struct value: region of the outer l-value
		if r := x.staticRegionOfSpec(ctr, sig, t.X); r != "" {
			return r + "." + t.Sel.Name
		}
	case *ast.StarExpr:
		xt := x.staticTypeOfSpec(ctr, sig, t.X)
		if xt != nil {
			if p, ok := xt.Underlying().(*types.Pointer); ok {
				return typePrefix(p.Elem())
			}
		}
	case *ast.Ident:
		if pkg := x.prog.pkgByPath[ctr.Pkg]; pkg != nil {
			if obj, ok := pkg.Scope().Lookup(t.Name).(*types.Var); ok {
				return "global." + shortPkg(obj.Pkg().Path()) + "." + obj.Name()
			}
		}
	}
	return ""
}

// siteClauses asserts the top function's "site <callee> requires" clauses at
// every call of that callee, evaluated over the caller's named locals with the
// actual arguments bound to arg0, arg1, ...
func (x *Exec) siteClauses(fr *Frame, st *State, call *ssa.CallCommon, instr ssa.Instruction, fv Val, args []Val) {
	// the site clauses of the function under verification also cover the calls made by the
	// helpers that are inlined into it (an extracted helper must not escape them)
	top := fr
	for top.parent != nil {
		top = top.parent
	}
	if !top.top || top.ctr == nil {
		return
	}
	var callee string
	if call.IsInvoke() {
		callee = shortPkgOfType(call.Value.Type()) + "." + call.Method.Name()
	} else if b, ok := call.Value.(*ssa.Builtin); ok {
		callee = "builtin." + b.Name()
	} else if f := call.StaticCallee(); f != nil {
		callee = x.prog.relName(f)
		if !x.prog.inRepo(f) {
			callee = f.String()
		}
	} else if fv.Fn != nil {
		callee = x.prog.relName(fv.Fn)
	} else {
		callee = shortPkgOfType(call.Value.Type())
	}
	all := args
	if call.IsInvoke() {
		all = append([]Val{fv}, args...)
	}
	x.siteClausesNamed(fr, top, st, callee, instr, all)
}

// siteClausesNamed asserts the site clauses of the function under verification that name this callee.
// Besides calls, the pseudo callees "mapupdate" (m[k] = v: arg0 map, arg1 key, arg2 value),
// "maplookup" (m[k]: arg0 map, arg1 key) and "builtin.delete" are sites.
func (x *Exec) siteClausesNamed(fr, top *Frame, st *State, callee string, instr ssa.Instruction, all []Val) {
	if top == nil {
		top = fr
		for top.parent != nil {
			top = top.parent
		}
		if !top.top || top.ctr == nil {
			return
		}
	}
	for _, c := range top.ctr.Clauses {
		if c.Kind != "site" || c.SiteKind == "maypanic" {
			continue
		}
		if c.Callee != callee && !strings.HasSuffix(callee, "."+c.Callee) {
			continue
		}
		if x.siteMatched == nil {
			x.siteMatched = map[*Clause]bool{}
		}
		x.siteMatched[c] = true
		env := map[string]Val{}
		// names of the inlined frames between the top function and this call shadow the top function's
		var chain []*Frame
		for f := fr; f != top; f = f.parent {
			chain = append([]*Frame{f}, chain...)
		}
		for _, f := range chain {
			for k, v := range f.params {
				env[k] = v
			}
			for k, v := range f.locals(x, st) {
				env[k] = v
			}
			x.aliasEnv(f.fn, env)
		}
		for i, a := range all {
			env[fmt.Sprintf("arg%d", i)] = a
		}
		g := x.evalSpecBool(top, st, top.entry, c.Expr, env)
		lbl := c.Label
		if lbl == "" {
			lbl = fmt.Sprintf("%d", clauseOrdinal(top.ctr, c))
		}
		name := x.siteName(fmt.Sprintf("%s/site.%s.%s@%s", x.prog.relName(x.topFn), c.Callee, lbl, x.srcText(instr)))
		siteObl := x.oblige(st, "site", name, c.Tags, instr.Pos(), g)
		x.smt.Assert(implies(st.pc, g)) // proven here, available afterwards (intermediate assertion)
		// a clause that is false in every state that reaches this call would, once assumed, make the rest
		// of the function hold vacuously: the state after the clause must still be reachable
		x.covers = append(x.covers, &Cover{Name: strings.Replace(name, "/site.", "/cover.site.", 1), prefix: len(x.smt.asserts), pc: st.pc, before: st.pc, oblig: siteObl, smt: x.smt})
	}
}

// sitePanics returns the "site <callee> maypanic" clause of the function under verification that
// names the callee of this call instruction, if any.
func (x *Exec) sitePanics(fr *Frame, instr ssa.Instruction) *Clause {
	ci, ok := instr.(ssa.CallInstruction)
	if !ok {
		return nil
	}
	top := fr
	for top.parent != nil {
		top = top.parent
	}
	if !top.top || top.ctr == nil {
		return nil
	}
	call := ci.Common()
	var callee string
	if call.IsInvoke() {
		callee = shortPkgOfType(call.Value.Type()) + "." + call.Method.Name()
	} else if f := call.StaticCallee(); f != nil {
		callee = x.prog.relName(f)
		if !x.prog.inRepo(f) {
			callee = f.String()
		}
	} else {
		return nil
	}
	for _, c := range top.ctr.Clauses {
		if c.Kind == "site" && c.SiteKind == "maypanic" && (c.Callee == callee || strings.HasSuffix(callee, "."+c.Callee)) {
			if x.siteMatched == nil {
				x.siteMatched = map[*Clause]bool{}
			}
			x.siteMatched[c] = true
			return c
		}
	}
	return nil
}

func shortPkgOfType(t types.Type) string {
	if n, ok := t.(*types.Named); ok && n.Obj().Pkg() != nil {
		return shortPkg(n.Obj().Pkg().Path()) + "." + n.Obj().Name()
	}
	return types.TypeString(t, nil)
}

func ghostMapRegion(gm *GhostMap) (string, string, string) {
	ks := scalarSort(ghostType(gm.Key))
	vs := scalarSort(ghostType(gm.Val))
	return "map:" + ks + ":ghost." + gm.Name, ks, vs
}

func (x *Exec) applyGhostSet(st, old *State, c *Clause, pkg *types.Package, env map[string]Val) {
	if i := strings.Index(c.Targets[0], "("); i > 0 {
		name := strings.TrimSpace(c.Targets[0][:i])
		if name == "chanSent" || name == "chanRecvd" {
			keyText := strings.TrimSuffix(strings.TrimSpace(c.Targets[0][i+1:]), ")")
			kn, err := parseSpec(keyText)
			if err != nil {
				x.unsupported("ghostset %s: %v", name, err)
				return
			}
			sc := &specCtx{x: x, pkg: pkg, env: env, st: st, old: old}
			kv := sc.node(kn)
			vv := sc.node(c.Expr)
			if vv.Const != nil {
				vv = sc.coerce(vv, types.Typ[types.Int])
			}
			reg := map[string]string{"chanSent": "chan.sent", "chanRecvd": "chan.recvd"}[name]
			x.heapWrite(st, reg, SBV64, kv.L[0], "", vv.L[0])
			return
		}
		gm := x.prog.contracts.GhostMaps[name]
		if gm == nil {
			x.unsupported("ghostset: unknown ghost map %s", name)
			return
		}
		keyText := strings.TrimSuffix(strings.TrimSpace(c.Targets[0][i+1:]), ")")
		kn, err := parseSpec(keyText)
		if err != nil {
			x.unsupported("ghostset %s: %v", name, err)
			return
		}
		sc := &specCtx{x: x, pkg: pkg, env: env, st: st, old: old}
		kv := sc.node(kn)
		vv := sc.node(c.Expr)
		reg, _, vs := ghostMapRegion(gm)
		if len(kv.L) != 1 || len(vv.L) != 1 {
			x.unsupported("ghostset %s: composite key or value", name)
			return
		}
		if vv.Const != nil {
			vv = sc.coerce(vv, ghostType(gm.Val))
		}
		x.heapWrite(st, reg, vs, "#x00000001", kv.L[0], vv.L[0])
		return
	}
	g := strings.TrimPrefix(c.Targets[0], "#")
	cur, ok := st.ghost[g]
	if !ok {
		x.unsupported("ghostset: unknown ghost %s", g)
		return
	}
	sc := &specCtx{x: x, pkg: pkg, env: env, st: st, old: old}
	v := sc.node(c.Expr)
	if v.Const != nil {
		v = sc.coerce(v, cur.T)
	}
	if len(v.L) == 1 && v.L[0] == "nil" {
		v = zeroVal(cur.T)
	}
	if len(v.L) != len(cur.L) {
		x.unsupported("ghostset %s: value shape mismatch", g)
		return
	}
	st.ghost[g] = Val{T: cur.T, L: v.L}
}

// indexCandidates lists the values of range-loop indices (k and k+1) that have
// been computed in this frame; they are natural witnesses for "exists k".
func (fr *Frame) indexCandidates() []string {
	var out []string
	seen := map[string]bool{}
	for v, val := range fr.vals {
		var ok bool
		switch t := v.(type) {
		case *ssa.Phi:
			ok = t.Comment == "rangeindex"
		case *ssa.BinOp:
			if p, isPhi := t.X.(*ssa.Phi); isPhi && p.Comment == "rangeindex" {
				ok = true
			}
		}
		if ok && len(val.L) == 1 && !seen[val.L[0]] {
			seen[val.L[0]] = true
			out = append(out, val.L[0])
		}
	}
	sort.Strings(out)
	if len(out) > 8 {
		out = out[:8]
	}
	return out
}

// ---------- panics of callees and recovery ----------

// recovers reports whether the deferred call is a closure that calls recover().
func deferRecovers(d deferred) bool {
	fn := d.fnval.Fn
	if fn == nil {
		if f, ok := d.call.Value.(*ssa.Function); ok {
			fn = f
		} else if mc, ok := d.call.Value.(*ssa.MakeClosure); ok {
			fn, _ = mc.Fn.(*ssa.Function)
		}
	}
	if fn == nil {
		return false
	}
	for _, b := range fn.Blocks {
		for _, in := range b.Instrs {
			if c, ok := in.(*ssa.Call); ok {
				if bi, ok := c.Call.Value.(*ssa.Builtin); ok && bi.Name() == "recover" {
					return true
				}
			}
		}
	}
	return false
}

func (fr *Frame) hasRecoveringDefer() bool {
	for _, d := range fr.defers {
		if deferRecovers(d) {
			return true
		}
	}
	return false
}

// panicEdge models "this call may panic here". If no frame on the (inlined)
// call stack has registered a deferred function that recovers, the panic takes
// the process down: a panic-freedom obligation that cannot be discharged.
// Otherwise the state at the call is recorded; when the body of the current
// frame is finished the deferred calls are run on it in panicking mode and
// execution resumes at the function's recover block (see finishPanics).
func (x *Exec) panicEdge(fr *Frame, st *State, instr ssa.Instruction, what string, tags []string) *State {
	recovering := false
	for f := fr; f != nil; f = f.parent {
		if f.hasRecoveringDefer() {
			recovering = true
			break
		}
	}
	if !recovering {
		if x.topCtr != nil && x.topCtr.has("maypanic") {
			// the function under verification declares that it lets panics escape: its callers
			// answer for them; its `onpanic ensures` clauses are checked on the escaping state
			es := st.clone()
			b := x.smt.Fresh("panics", SBool)
			es.pc = x.smt.Name("pc", SBool, and(st.pc, b))
			st.pc = x.smt.Name("pc", SBool, and(st.pc, not(b)))
			x.escaped = append(x.escaped, es)
			return es
		}
		if x.safety {
			name := x.siteName(fmt.Sprintf("%s/extpanic.%s@%s", x.prog.relName(x.topFn), what, x.srcText(instr)))
			t := tags
			if len(t) == 0 {
				t = x.safetyTag
			}
			x.oblige(st, "panic", name, t, instr.Pos(), "false")
		}
		return nil
	}
	if os.Getenv("GOCV_DEBUG_PANIC") != "" {
		fmt.Fprintf(os.Stderr, "panic edge at %s in %s (recovering frame found)\n", what, fr.fn.Name())
	}
	ps := st.clone()
	x.smt.fresh++
	b := x.smt.Fresh("panics", SBool)
	ps.pc = x.smt.Name("pc", SBool, and(st.pc, b))
	fr.panicStates = append(fr.panicStates, ps)
	// the normal continuation is the other case: facts assumed about the callee's normal
	// return (its postconditions) must not leak into the panic state, which shares its terms
	st.pc = x.smt.Name("pc", SBool, and(st.pc, not(b)))
	return ps
}

// finishPanics runs after the body of fr: the recorded panic states unwind through
// the deferred calls of fr; if one of them recovers, the function returns
// normally through its recover block, otherwise the panic reaches the caller.
func (x *Exec) finishPanics(fr *Frame, in map[*ssa.BasicBlock][]edgeState, loops map[*ssa.BasicBlock]*loopInfo) {
	if len(fr.panicStates) == 0 {
		return
	}
	st := x.mergeStates(fr.panicStates)
	fr.panicStates = nil
	if st == nil || st.dead {
		return
	}
	savedMode, savedRec := x.panicMode, x.didRecover
	x.panicMode, x.didRecover = true, false
	for i := len(fr.defers) - 1; i >= 0; i-- {
		d := fr.defers[i]
		run := st.clone()
		run.pc = x.smt.Name("pc", SBool, and(st.pc, d.guard))
		skip := st.clone()
		skip.pc = x.smt.Name("pc", SBool, and(st.pc, not(d.guard)))
		x.doCallVals(fr, run, d.call, d.instr, d.fnval, d.args, false)
		m := x.mergeStates([]*State{run, skip})
		*st = *m
	}
	recovered := x.didRecover
	x.panicMode, x.didRecover = savedMode, savedRec
	if os.Getenv("GOCV_DEBUG_PANIC") != "" {
		fmt.Fprintf(os.Stderr, "finishPanics %s: defers=%d recovered=%v recoverBlock=%v dead=%v\n", fr.fn.Name(), len(fr.defers), recovered, fr.fn.Recover != nil, st.dead)
	}
	if !recovered {
		if fr.parent != nil {
			fr.parent.panicStates = append(fr.parent.panicStates, st)
		} else if x.topCtr != nil && x.topCtr.has("maypanic") {
			x.escaped = append(x.escaped, st)
		} else if x.safety {
			x.oblige(st, "panic", x.siteName(fmt.Sprintf("%s/extpanic.unrecovered", x.prog.relName(x.topFn))), x.safetyTag, fr.fn.Pos(), "false")
		}
		return
	}
	if rb := fr.fn.Recover; rb != nil {
		fr.curBlock = rb
		x.execBlock(fr, rb, st, in, loops)
		return
	}
	// no named results: the function returns the zero values
	var rs []Val
	for _, t := range resultTypes(fr.fn.Signature) {
		rs = append(rs, zeroVal(t))
	}
	x.doReturn(fr, st, rs, nil)
}
