package main

import (
	"fmt"
	"os"
	"path/filepath"
	"strings"
)

// writeReplay records a failed obligation: its name, position, the solver's
// verdict and model and, where a replay driver exists, a Go test that was run
// against the real code.
func writeReplay(run *checkRun, o *Obligation, keep bool) string {
	dir := replayDir(run.prop)
	base := filepath.Join(dir, sanitize(o.Name))
	var b strings.Builder
	fmt.Fprintf(&b, "obligation: %s\nproperty: %s\nkind: %s\nposition: %s\nclause: %s\nstatus: %s (solver %s, %.2fs)\n", o.Name, run.prop, o.Kind, o.Pos, o.Note, o.Result.Status, o.Result.Solver, o.Result.Secs)
	fmt.Fprintf(&b, "answers: %v\n", o.Result.All)
	q := o.smt.Query(o.prefix, o.pc, not(o.goal))
	qpath := base + ".smt2"
	os.WriteFile(qpath, []byte(q+"(get-model)\n"), 0o644)
	fmt.Fprintf(&b, "query: %s\n", qpath)
	if o.Result.Status != "unsat" {
		// also for unknown/timeout: another solver run may still produce a model
		rep := tryReplay(run, o, base)
		b.WriteString(rep)
	}
	fmt.Fprintf(&b, "\n--- solver output ---\n%s\n", truncate(o.Result.Raw, 4000))
	if o.Result.Model != "" {
		fmt.Fprintf(&b, "\n--- model ---\n%s\n", truncate(o.Result.Model, 20000))
	}
	path := base + ".replay.txt"
	os.WriteFile(path, []byte(b.String()), 0o644)
	return path
}

func truncate(s string, n int) string {
	if len(s) > n {
		return s[:n] + "\n...[truncated]"
	}
	return s
}

func cmdReplay(args []string) int {
	if len(args) < 1 {
		fmt.Println("usage: gocv replay <path>")
		return 2
	}
	data, err := os.ReadFile(args[0])
	if err != nil {
		fmt.Println(err)
		return 2
	}
	fmt.Print(string(data))
	// re-run an attached Go replay test if there is one
	for _, line := range strings.Split(string(data), "\n") {
		if strings.HasPrefix(line, "replay-test: ") {
			return runReplayTest(strings.TrimPrefix(line, "replay-test: "))
		}
	}
	return 0
}
