package main

import (
	"bytes"
	"fmt"
	"go/ast"
	"go/printer"
	"go/token"
	"go/types"
	"os"
	"path/filepath"
	"sort"
	"strings"

	"golang.org/x/tools/go/packages"
	"golang.org/x/tools/go/ssa"
	"golang.org/x/tools/go/ssa/ssautil"
)

const repoModule = "github.com/bolkedebruin/rdpgw"

type Program struct {
	fset      *token.FileSet
	pkgs      []*packages.Package
	ssa       *ssa.Program
	contracts *ContractSet
	funcByKey map[string]*ssa.Function
	keyOfFunc map[*ssa.Function]string
	pkgByPath map[string]*types.Package
	allPkgs   []*types.Package
	files     map[string]*ast.File // filename -> AST (repo packages)
	repoDir   string
	loadSecs  float64
	implCache map[*types.Named]types.Type
	infos     map[string]*types.Info      // package path -> type info (repo packages)
	localsLock map[string][]localDecl      // function key -> declared locals when the lock was written
	fieldsLock map[string][]localDecl      // struct type (typePrefix) -> fields when the lock was written
	fieldAlias map[string]map[string]string // struct type -> recorded field name -> current name (renamed fields)
	aliasCache map[*ssa.Function]map[string][]string
	relNames   map[string]bool
	entryCache map[*ssa.Function]bool
}

// localDecl is one variable declared in a function (parameters, results, locals) in source order.
type localDecl struct {
	Name string
	Type string
}

func (p *Program) inRepo(fn *ssa.Function) bool {
	pkg := fn.Pkg
	if pkg == nil && fn.Parent() != nil {
		pkg = fn.Parent().Pkg
	}
	if pkg == nil {
		if fn.Signature.Recv() != nil {
			// wrappers / synthetic
			if o := fn.Object(); o != nil && o.Pkg() != nil {
				return strings.HasPrefix(o.Pkg().Path(), repoModule)
			}
		}
		return false
	}
	return strings.HasPrefix(pkg.Pkg.Path(), repoModule)
}

func (p *Program) funcPkgPath(fn *ssa.Function) string {
	if fn.Pkg != nil {
		return fn.Pkg.Pkg.Path()
	}
	if fn.Parent() != nil {
		return p.funcPkgPath(fn.Parent())
	}
	if o := fn.Object(); o != nil && o.Pkg() != nil {
		return o.Pkg().Path()
	}
	return ""
}

// relName is the name used in contract files and obligation names:
// "(*Processor).Process", "readHeader", "CheckSession$1".
func (p *Program) relName(fn *ssa.Function) string {
	if fn == nil {
		return "?"
	}
	var pkg *types.Package
	if fn.Pkg != nil {
		pkg = fn.Pkg.Pkg
	} else if fn.Parent() != nil && fn.Parent().Pkg != nil {
		pkg = fn.Parent().Pkg.Pkg
	}
	pp := p.funcPkgPath(fn)
	return shortPkg(pp) + "." + fn.RelString(pkg)
}

func (p *Program) funcKey(fn *ssa.Function) string {
	if k, ok := p.keyOfFunc[fn]; ok {
		return k
	}
	var k string
	if p.inRepo(fn) {
		var pkg *types.Package
		if fn.Pkg != nil {
			pkg = fn.Pkg.Pkg
		} else if fn.Parent() != nil && fn.Parent().Pkg != nil {
			pkg = fn.Parent().Pkg.Pkg
		}
		k = p.funcPkgPath(fn) + "|" + fn.RelString(pkg)
	} else {
		k = "extern:" + fn.String()
	}
	p.keyOfFunc[fn] = k
	return k
}

func (p *Program) contractFor(fn *ssa.Function) *Contract {
	return p.contracts.ByKey[p.funcKey(fn)]
}

func loadProgram(repoDir string, patterns []string, specDir string) (*Program, error) {
	cfg := &packages.Config{
		Mode:       packages.LoadAllSyntax,
		Dir:        repoDir,
		BuildFlags: []string{"-tags=verif"},
		Env:        append(os.Environ(), "GOFLAGS=-mod=mod", "GOPROXY=off", "GOSUMDB=off", "GOTOOLCHAIN=local", "CGO_ENABLED=0"),
	}
	pkgs, err := packages.Load(cfg, patterns...)
	if err != nil {
		return nil, err
	}
	var errs []string
	for _, pk := range pkgs {
		for _, e := range pk.Errors {
			errs = append(errs, e.Error())
		}
	}
	if len(errs) > 0 {
		return nil, fmt.Errorf("package load errors:\n%s", strings.Join(errs, "\n"))
	}
	prog, _ := ssautil.AllPackages(pkgs, ssa.InstantiateGenerics|ssa.GlobalDebug)
	prog.Build()
	p := &Program{fset: pkgs[0].Fset, pkgs: pkgs, ssa: prog, contracts: NewContractSet(), funcByKey: map[string]*ssa.Function{},
		keyOfFunc: map[*ssa.Function]string{}, pkgByPath: map[string]*types.Package{}, files: map[string]*ast.File{}, repoDir: repoDir}
	seen := map[*types.Package]bool{}
	packages.Visit(pkgs, nil, func(pk *packages.Package) {
		if pk.Types != nil && !seen[pk.Types] {
			seen[pk.Types] = true
			p.pkgByPath[pk.Types.Path()] = pk.Types
			p.allPkgs = append(p.allPkgs, pk.Types)
		}
		if strings.HasPrefix(pk.PkgPath, repoModule) {
			if p.infos == nil {
				p.infos = map[string]*types.Info{}
			}
			p.infos[pk.PkgPath] = pk.TypesInfo
			for i, f := range pk.Syntax {
				if i < len(pk.CompiledGoFiles) {
					p.files[pk.CompiledGoFiles[i]] = f
				}
			}
		}
	})
	sort.Slice(p.allPkgs, func(i, j int) bool {
		// repo packages first so that short names resolve to them
		ri, rj := strings.HasPrefix(p.allPkgs[i].Path(), repoModule), strings.HasPrefix(p.allPkgs[j].Path(), repoModule)
		if ri != rj {
			return ri
		}
		return p.allPkgs[i].Path() < p.allPkgs[j].Path()
	})
	// contract files in repo packages
	packages.Visit(pkgs, nil, func(pk *packages.Package) {
		if !strings.HasPrefix(pk.PkgPath, repoModule) {
			return
		}
		for _, f := range pk.CompiledGoFiles {
			if filepath.Base(f) == "contracts_verif.go" {
				p.contracts.parseFile(f, pk.PkgPath)
			}
		}
	})
	if specDir != "" {
		ms, _ := filepath.Glob(filepath.Join(specDir, "*.spec"))
		sort.Strings(ms)
		for _, m := range ms {
			p.contracts.parseFile(m, "")
		}
	}
	// index functions
	for fn := range ssautil.AllFunctions(prog) {
		k := p.funcKey(fn)
		if _, dup := p.funcByKey[k]; !dup {
			p.funcByKey[k] = fn
		}
	}
	return p, nil
}

// sourceText returns the source text of the expression an instruction comes
// from (used in obligation names instead of line numbers).
func (p *Program) sourceText(instr ssa.Instruction) string {
	pos := instr.Pos()
	if v, ok := instr.(*ssa.Call); ok && !pos.IsValid() {
		pos = v.Call.Pos()
	}
	if !pos.IsValid() {
		return fmt.Sprintf("%T", instr)
	}
	position := p.fset.Position(pos)
	f := p.files[position.Filename]
	if f == nil {
		return fmt.Sprintf("%s:%d", filepath.Base(position.Filename), position.Line)
	}
	// smallest enclosing expression/statement node containing pos whose start is closest
	var best ast.Node
	ast.Inspect(f, func(n ast.Node) bool {
		if n == nil {
			return false
		}
		if n.Pos() <= pos && pos < n.End() {
			switch n.(type) {
			case *ast.CallExpr, *ast.IndexExpr, *ast.SliceExpr, *ast.SelectorExpr, *ast.StarExpr, *ast.TypeAssertExpr, *ast.BinaryExpr, *ast.UnaryExpr, *ast.GoStmt, *ast.DeferStmt, *ast.SendStmt, *ast.CompositeLit, *ast.AssignStmt, *ast.ReturnStmt, *ast.RangeStmt, *ast.IncDecStmt:
				if accepts(instr, n, pos) {
					best = n
				}
			}
			return true
		}
		return false
	})
	if best == nil {
		return fmt.Sprintf("%s:%d", filepath.Base(position.Filename), position.Line)
	}
	var buf bytes.Buffer
	printer.Fprint(&buf, p.fset, best)
	s := strings.Join(strings.Fields(buf.String()), " ")
	if len(s) > 90 {
		s = s[:90] + "…"
	}
	return s
}

// accepts decides whether AST node n is the node an instruction's position
// refers to (go/ssa positions: Call -> Lparen, Slice/Index -> Lbrack, FieldAddr
// -> selector identifier, UnOp(*) -> star, BinOp -> operator, TypeAssert -> Lparen).
func accepts(instr ssa.Instruction, n ast.Node, pos token.Pos) bool {
	switch t := n.(type) {
	case *ast.CallExpr:
		return t.Lparen == pos
	case *ast.IndexExpr:
		return t.Lbrack == pos
	case *ast.SliceExpr:
		return t.Lbrack == pos
	case *ast.SelectorExpr:
		return t.Sel.Pos() == pos
	case *ast.StarExpr:
		return t.Star == pos
	case *ast.TypeAssertExpr:
		return t.Lparen == pos
	case *ast.BinaryExpr:
		return t.OpPos == pos
	case *ast.UnaryExpr:
		return t.OpPos == pos
	case *ast.GoStmt:
		return t.Go == pos
	case *ast.DeferStmt:
		return t.Defer == pos
	case *ast.SendStmt:
		return t.Arrow == pos
	case *ast.CompositeLit:
		return t.Lbrace == pos
	case *ast.AssignStmt:
		return t.TokPos == pos
	case *ast.ReturnStmt:
		return t.Return == pos
	case *ast.RangeStmt:
		return t.For == pos || t.TokPos == pos
	case *ast.IncDecStmt:
		return t.TokPos == pos
	}
	return false
}

func (p *Program) findFunc(pkgSuffix, rel string) *ssa.Function {
	for k, fn := range p.funcByKey {
		i := strings.Index(k, "|")
		if i < 0 {
			continue
		}
		if strings.HasSuffix(k[:i], pkgSuffix) && k[i+1:] == rel {
			return fn
		}
	}
	return nil
}

// lookupTypeContract finds an iface/functype contract by full or short type name.
func (p *Program) lookupTypeContract(kind string, t types.Type, suffix string) *Contract {
	if c := p.contracts.ByKey[kind+":"+qualifiedTypeName(t)+suffix]; c != nil {
		return c
	}
	if c := p.contracts.ByKey[kind+":"+shortPkgOfType(t)+suffix]; c != nil {
		return c
	}
	return nil
}

// singleImpl returns the only type declared in the repository that implements
// a repository-declared interface, or nil. Calls through such an interface are
// resolved to that implementation (class-hierarchy devirtualisation; an
// assumption listed in the evidence).
func (p *Program) singleImpl(it types.Type) types.Type {
	named, ok := it.(*types.Named)
	if !ok || named.Obj().Pkg() == nil || !strings.HasPrefix(named.Obj().Pkg().Path(), repoModule) {
		return nil
	}
	iface, ok := it.Underlying().(*types.Interface)
	if !ok || iface.NumMethods() == 0 {
		return nil
	}
	if r, ok := p.implCache[named]; ok {
		return r
	}
	var found []types.Type
	for _, pk := range p.allPkgs {
		if !strings.HasPrefix(pk.Path(), repoModule) {
			continue
		}
		sc := pk.Scope()
		for _, n := range sc.Names() {
			tn, ok := sc.Lookup(n).(*types.TypeName)
			if !ok || tn.IsAlias() {
				continue
			}
			t := tn.Type()
			if _, isI := t.Underlying().(*types.Interface); isI {
				continue
			}
			if types.Implements(t, iface) {
				found = append(found, t)
			} else if types.Implements(types.NewPointer(t), iface) {
				found = append(found, types.NewPointer(t))
			}
		}
	}
	var r types.Type
	if len(found) == 1 {
		r = found[0]
	}
	if p.implCache == nil {
		p.implCache = map[*types.Named]types.Type{}
	}
	p.implCache[named] = r
	return r
}

// declaredLocals lists the variables a function declares, in source order.
func (p *Program) declaredLocals(fn *ssa.Function) []localDecl {
	syn := fn.Syntax()
	info := p.infos[p.funcPkgPath(fn)]
	if syn == nil || info == nil {
		return nil
	}
	var out []localDecl
	ast.Inspect(syn, func(n ast.Node) bool {
		if fl, ok := n.(*ast.FuncLit); ok && n != syn {
			_ = fl
			return false // nested closures have their own list
		}
		id, ok := n.(*ast.Ident)
		if !ok || id.Name == "_" {
			return true
		}
		if obj, ok := info.Defs[id].(*types.Var); ok && obj != nil && !obj.IsField() {
			out = append(out, localDecl{id.Name, types.TypeString(obj.Type(), nil)})
		}
		return true
	})
	return out
}

// renamedLocals maps names that contracts may use (as recorded when the lock
// was written) to the current names when the function's declarations differ
// from the recorded ones only by renaming. Bindings are only a convenience:
// every clause is still checked, so a wrong binding cannot make a proof pass.
func (p *Program) renamedLocals(fn *ssa.Function) map[string][]string {
	if m, ok := p.aliasCache[fn]; ok {
		return m
	}
	if p.aliasCache == nil {
		p.aliasCache = map[*ssa.Function]map[string][]string{}
	}
	var m map[string][]string
	old := p.localsLock[p.funcKey(fn)]
	cur := p.declaredLocals(fn)
	if len(old) > 0 && len(cur) > 0 {
		// align the two declaration lists (same type required; equal names preferred):
		// declarations may also have been added or removed around the renamed ones
		n, k := len(old), len(cur)
		score := make([][]int, n+1)
		for i := range score {
			score[i] = make([]int, k+1)
		}
		for i := n - 1; i >= 0; i-- {
			for j := k - 1; j >= 0; j-- {
				best := score[i+1][j]
				if score[i][j+1] > best {
					best = score[i][j+1]
				}
				if old[i].Type == cur[j].Type {
					w := 1
					if old[i].Name == cur[j].Name {
						w = 3
					}
					if score[i+1][j+1]+w > best {
						best = score[i+1][j+1] + w
					}
				}
				score[i][j] = best
			}
		}
		present := map[string]bool{}
		for _, c := range cur {
			present[c.Name] = true
		}
		m = map[string][]string{}
		for i, j := 0, 0; i < n && j < k; {
			w := 0
			if old[i].Type == cur[j].Type {
				w = 1
				if old[i].Name == cur[j].Name {
					w = 3
				}
			}
			switch {
			case w > 0 && score[i][j] == score[i+1][j+1]+w:
				if old[i].Name != cur[j].Name && !present[old[i].Name] {
					// a name declared several times (shadowing, successive loops) may have been
					// renamed differently per declaration: keep every candidate, in source order
					m[old[i].Name] = append(m[old[i].Name], cur[j].Name)
				}
				i++
				j++
			case score[i][j] == score[i+1][j]:
				i++
			default:
				j++
			}
		}
		if len(m) == 0 {
			m = nil
		}
	}
	p.aliasCache[fn] = m
	return m
}

func (p *Program) loadLocalsLock(path string) {
	p.localsLock = map[string][]localDecl{}
	data, err := os.ReadFile(path)
	if err != nil {
		return
	}
	for _, line := range strings.Split(string(data), "\n") {
		fs := strings.Split(line, "\t")
		if len(fs) == 3 {
			p.localsLock[fs[0]] = append(p.localsLock[fs[0]], localDecl{fs[1], fs[2]})
		}
	}
}

// isEntryPoint: exported functions and methods, functions that escape as values
// (handlers, callbacks, goroutine bodies) and functions nobody in the repository
// calls are verified on their own; everything else only where it is inlined.
func (p *Program) isEntryPoint(fn *ssa.Function) bool {
	if p.entryCache == nil {
		p.entryCache = map[*ssa.Function]bool{}
		called := map[*ssa.Function]bool{}
		escapes := map[*ssa.Function]bool{}
		for f := range p.keyOfFunc {
			_ = f
		}
		for _, f := range p.funcByKey {
			if !p.inRepo(f) {
				continue
			}
			for _, b := range f.Blocks {
				for _, instr := range b.Instrs {
					var cc *ssa.CallCommon
					isGo := false
					switch t := instr.(type) {
					case *ssa.Call:
						cc = &t.Call
					case *ssa.Defer:
						cc = &t.Call
					case *ssa.Go:
						cc = &t.Call
						isGo = true
					}
					var calleeVal ssa.Value
					if cc != nil && !cc.IsInvoke() {
						calleeVal = cc.Value
						if callee := cc.StaticCallee(); callee != nil {
							if isGo {
								escapes[callee] = true
							} else {
								called[callee] = true
							}
						}
					}
					for _, op := range instr.Operands(nil) {
						if op == nil || *op == nil || *op == calleeVal {
							continue
						}
						if _, isMC := instr.(*ssa.MakeClosure); isMC {
							continue // the function operand of its own MakeClosure; uses of the closure decide
						}
						if _, isDbg := instr.(*ssa.DebugRef); isDbg {
							continue
						}
						switch v := (*op).(type) {
						case *ssa.Function:
							escapes[v] = true
						case *ssa.MakeClosure:
							// the closure value itself: escaping is decided by the uses of the MakeClosure
							_ = v
						}
					}
					if mc, ok := instr.(*ssa.MakeClosure); ok {
						cf := mc.Fn.(*ssa.Function)
						direct := true
						for _, ref := range *mc.Referrers() {
							switch r := ref.(type) {
							case *ssa.Call:
								if r.Call.Value != mc {
									direct = false
								}
							case *ssa.Defer:
								if r.Call.Value != mc {
									direct = false
								}
							case *ssa.DebugRef:
							default:
								direct = false
							}
						}
						if direct {
							called[cf] = true
						} else {
							escapes[cf] = true
						}
					}
				}
			}
		}
		for _, f := range p.funcByKey {
			if !p.inRepo(f) {
				continue
			}
			exported := false
			if o := f.Object(); o != nil {
				exported = o.Exported()
			}
			p.entryCache[f] = exported || escapes[f] || !called[f]
		}
	}
	return p.entryCache[fn]
}

// hasFuncRel reports whether a function with this relative name exists (guards
// against misspelled names in fnIs, which would otherwise be vacuously false).
func (p *Program) hasFuncRel(rel string) bool {
	if p.relNames == nil {
		p.relNames = map[string]bool{}
		for _, f := range p.funcByKey {
			p.relNames[p.relName(f)] = true
		}
		for f := range p.keyOfFunc {
			p.relNames[p.relName(f)] = true
		}
	}
	if p.relNames[rel] {
		return true
	}
	if strings.HasSuffix(rel, "$bound") {
		return p.relNames[strings.TrimSuffix(rel, "$bound")]
	}
	return false
}

func (p *Program) allFuncsByRel(rel string) []*ssa.Function {
	var out []*ssa.Function
	for f := range p.keyOfFunc {
		if p.relName(f) == rel {
			out = append(out, f)
		}
	}
	return out
}

// isDeclaredLocal: name is a variable declared in the source of fn.
func (x *Exec) isDeclaredLocal(fn *ssa.Function, name string) bool {
	if name == "" {
		return false
	}
	if x.declNames == nil {
		x.declNames = map[*ssa.Function]map[string]bool{}
	}
	m, ok := x.declNames[fn]
	if !ok {
		m = map[string]bool{}
		for _, d := range x.prog.declaredLocals(fn) {
			m[d.Name] = true
		}
		x.declNames[fn] = m
	}
	return m[name]
}

// structFields lists the fields of every named struct type declared in the repository.
func (p *Program) structFields() map[string][]localDecl {
	out := map[string][]localDecl{}
	for _, pk := range p.allPkgs {
		if !strings.HasPrefix(pk.Path(), repoModule) {
			continue
		}
		for _, name := range pk.Scope().Names() {
			tn, ok := pk.Scope().Lookup(name).(*types.TypeName)
			if !ok {
				continue
			}
			st, ok := tn.Type().Underlying().(*types.Struct)
			if !ok {
				continue
			}
			key := typePrefix(tn.Type())
			for i := 0; i < st.NumFields(); i++ {
				out[key] = append(out[key], localDecl{st.Field(i).Name(), types.TypeString(st.Field(i).Type(), nil)})
			}
		}
	}
	return out
}

func (p *Program) loadFieldsLock(path string) {
	p.fieldsLock = map[string][]localDecl{}
	p.fieldAlias = map[string]map[string]string{}
	data, err := os.ReadFile(path)
	if err != nil {
		return
	}
	for _, line := range strings.Split(string(data), "\n") {
		fs := strings.Split(line, "\t")
		if len(fs) == 3 {
			p.fieldsLock[fs[0]] = append(p.fieldsLock[fs[0]], localDecl{fs[1], fs[2]})
		}
	}
	cur := p.structFields()
	for key, old := range p.fieldsLock {
		now := cur[key]
		if len(now) == 0 {
			continue
		}
		present := map[string]bool{}
		for _, f := range now {
			present[f.Name] = true
		}
		// align the recorded and the current field lists (same type required, equal names preferred)
		n, k := len(old), len(now)
		score := make([][]int, n+1)
		for i := range score {
			score[i] = make([]int, k+1)
		}
		w := func(i, j int) int {
			if old[i].Type != now[j].Type {
				return 0
			}
			if old[i].Name == now[j].Name {
				return 3
			}
			return 1
		}
		for i := n - 1; i >= 0; i-- {
			for j := k - 1; j >= 0; j-- {
				best := score[i+1][j]
				if score[i][j+1] > best {
					best = score[i][j+1]
				}
				if ww := w(i, j); ww > 0 && score[i+1][j+1]+ww > best {
					best = score[i+1][j+1] + ww
				}
				score[i][j] = best
			}
		}
		for i, j := 0, 0; i < n && j < k; {
			ww := w(i, j)
			switch {
			case ww > 0 && score[i][j] == score[i+1][j+1]+ww:
				if old[i].Name != now[j].Name && !present[old[i].Name] {
					if p.fieldAlias[key] == nil {
						p.fieldAlias[key] = map[string]string{}
					}
					p.fieldAlias[key][old[i].Name] = now[j].Name
				}
				i++
				j++
			case score[i][j] == score[i+1][j]:
				i++
			default:
				j++
			}
		}
	}
}

// fieldName maps a field name used in a contract to the current name of that field of struct type t
// (fields that were merely renamed since the contracts were written).
func (p *Program) fieldName(t types.Type, name string) string {
	if m := p.fieldAlias[typePrefix(t)]; m != nil {
		if n, ok := m[name]; ok {
			return n
		}
	}
	return name
}

// fixRegion renames the field component of a region literal such as "protocol.Tunnel.pending".
func (p *Program) fixRegion(r string) string {
	for key, m := range p.fieldAlias {
		if strings.HasPrefix(r, key+".") {
			rest := r[len(key)+1:]
			field, tail := rest, ""
			if i := strings.IndexAny(rest, ".#"); i >= 0 {
				field, tail = rest[:i], rest[i:]
			}
			if n, ok := m[field]; ok {
				return key + "." + n + tail
			}
		}
	}
	return r
}
