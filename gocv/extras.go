package main

// Extras that are NOT deductive proof and are reported separately in the evidence:
//   - bounded stand-ins: functions outside the verified subset are executed on the
//     real code over a stated finite input set (label "bounded", never counted as
//     discharged obligations);
//   - conformance tests of the assumed library contracts/models against the real
//     libraries ("tested, not proved"), thorough tier only.

import (
	"encoding/json"
	"fmt"
	"os"
	"os/exec"
	"path/filepath"
	"regexp"
	"strings"
	"time"
)

type boundedSpec struct {
	File     string `json:"file"`
	Pkg      string `json:"pkg"`
	Run      string `json:"run"`
	Property string `json:"property"`
	Function string `json:"function"`
	Bound    string `json:"bound"`
}

type boundedResult struct {
	Function  string   `json:"function"`
	Label     string   `json:"label"`
	Bound     string   `json:"bound"`
	Cases     int      `json:"cases"`
	Failures  []string `json:"failures"`
	Secs      float64  `json:"secs"`
	Cmd       string   `json:"cmd"`
	Error     string   `json:"error,omitempty"`
	Obligation string  `json:"obligation"`
}

func goEnv() []string {
	env := os.Environ()
	env = append(env, "GOFLAGS=-mod=mod", "GOPROXY=off", "GOSUMDB=off", "GOTOOLCHAIN=local")
	return env
}

// runBounded executes the bounded stand-ins registered for the property.
func runBounded(prop string) []boundedResult {
	data, err := os.ReadFile(filepath.Join(verifDir, "bounded", "index.json"))
	if err != nil {
		return nil
	}
	var specs []boundedSpec
	if json.Unmarshal(data, &specs) != nil {
		return nil
	}
	var out []boundedResult
	for _, s := range specs {
		if s.Property != prop {
			continue
		}
		work, _ := os.MkdirTemp(filepath.Join(verifDir, ".work"), "bounded")
		if work == "" {
			os.MkdirAll(filepath.Join(verifDir, ".work"), 0o755)
			work, _ = os.MkdirTemp(filepath.Join(verifDir, ".work"), "bounded")
		}
		ov := map[string]map[string]string{"Replace": {filepath.Join(repoDir, s.Pkg, s.File): filepath.Join(verifDir, "bounded", s.File)}}
		ovData, _ := json.Marshal(ov)
		ovPath := filepath.Join(work, "overlay.json")
		os.WriteFile(ovPath, ovData, 0o644)
		args := []string{"test", "-overlay", ovPath, "-vet=off", "-count=1", "-v", "-timeout", "120s", "-run", "^" + s.Run + "$", "./" + s.Pkg + "/"}
		cmd := exec.Command("go", args...)
		cmd.Dir = repoDir
		cmd.Env = goEnv()
		t0 := time.Now()
		raw, _ := cmd.CombinedOutput()
		res := boundedResult{Function: s.Function, Label: "bounded", Bound: s.Bound, Secs: round3(time.Since(t0).Seconds()),
			Cmd: "cd " + repoDir + " && go " + strings.Join(args, " "), Obligation: s.Function + "/bounded.nopanic"}
		sawCases := false
		for _, line := range strings.Split(string(raw), "\n") {
			if strings.HasPrefix(line, "BOUNDED-FAIL ") {
				res.Failures = append(res.Failures, strings.TrimPrefix(line, "BOUNDED-FAIL "))
			}
			if strings.HasPrefix(line, "BOUNDED-CASES ") {
				fmt.Sscanf(strings.TrimPrefix(line, "BOUNDED-CASES "), "%d", &res.Cases)
				sawCases = true
			}
		}
		if !sawCases {
			res.Error = "bounded harness did not run to completion: " + truncate(string(raw), 2000)
		}
		os.RemoveAll(work)
		out = append(out, res)
	}
	return out
}

type conformanceResult struct {
	Label  string   `json:"label"`
	Passed []string `json:"passed"`
	Failed []string `json:"failed"`
	Secs   float64  `json:"secs"`
	Cmd    string   `json:"cmd"`
	Output string   `json:"output,omitempty"`
}

// runConformance tests the assumed library models against the real libraries.
func runConformance() *conformanceResult {
	dir := filepath.Join(verifDir, "conformance")
	if _, err := os.Stat(filepath.Join(dir, "go.mod")); err != nil {
		return nil
	}
	cmd := exec.Command("go", "test", "-count=1", "-v", "-timeout", "300s", ".")
	cmd.Dir = dir
	cmd.Env = goEnv()
	t0 := time.Now()
	raw, _ := cmd.CombinedOutput()
	res := &conformanceResult{Label: "tested, not proved", Secs: round3(time.Since(t0).Seconds()), Cmd: "cd " + dir + " && go test -count=1 -v ."}
	re := regexp.MustCompile(`^--- (PASS|FAIL): (\S+)`)
	for _, line := range strings.Split(string(raw), "\n") {
		if m := re.FindStringSubmatch(strings.TrimSpace(line)); m != nil {
			if m[1] == "PASS" {
				res.Passed = append(res.Passed, m[2])
			} else {
				res.Failed = append(res.Failed, m[2])
			}
		}
	}
	if len(res.Failed) > 0 || len(res.Passed) == 0 {
		res.Output = truncate(string(raw), 4000)
	}
	return res
}

func writeBoundedReplay(run *checkRun, b boundedResult, failure string, idx int) string {
	path := filepath.Join(replayDir(run.prop), sanitize(b.Obligation)+fmt.Sprintf(".%d.replay.txt", idx))
	var sb strings.Builder
	fmt.Fprintf(&sb, "obligation: %s\nproperty: %s\nkind: bounded stand-in (executed on the real code, not a proof)\nbound: %s\n", b.Obligation, run.prop, b.Bound)
	fmt.Fprintf(&sb, "failing input: %s\nreplay: confirmed-on-real-code (the harness called the real function with this input and it panicked)\nrerun: %s\n", failure, b.Cmd)
	os.WriteFile(path, []byte(sb.String()), 0o644)
	return path
}
