package main

// Extras that are NOT deductive proof and are reported separately in the evidence:
//   - bounded stand-ins: functions outside the verified subset are executed on the
//     real code over a stated finite input set (label "bounded", never counted as
//     discharged obligations);
//   - conformance tests of the assumed library contracts/models against the real
//     libraries ("tested, not proved"), thorough tier only.

import (
	"sync"
	"encoding/json"
	"fmt"
	"os"
	"os/exec"
	"path/filepath"
	"regexp"
	"strings"
	"time"
)

type boundedSpec struct {
	File     string `json:"file"`
	Pkg      string `json:"pkg"`
	Run      string `json:"run"`
	Property string `json:"property"`
	Function string `json:"function"`
	Bound    string `json:"bound"`
}

type boundedResult struct {
	Function  string   `json:"function"`
	Label     string   `json:"label"`
	Bound     string   `json:"bound"`
	Cases     int      `json:"cases"`
	Failures  []string `json:"failures"`
	Secs      float64  `json:"secs"`
	Cmd       string   `json:"cmd"`
	Error     string   `json:"error,omitempty"`
	Obligation string  `json:"obligation"`
}

func goEnv() []string {
	env := os.Environ()
	env = append(env, "GOFLAGS=-mod=mod", "GOPROXY=off", "GOSUMDB=off", "GOTOOLCHAIN=local")
	return env
}

// runBounded executes the bounded stand-ins registered for the property.
func runBounded(prop string) []boundedResult {
	data, err := os.ReadFile(filepath.Join(verifDir, "bounded", "index.json"))
	if err != nil {
		return nil
	}
	var specs []boundedSpec
	if json.Unmarshal(data, &specs) != nil {
		return nil
	}
	var out []boundedResult
	for _, s := range specs {
		if s.Property != prop {
			continue
		}
		work, _ := os.MkdirTemp(filepath.Join(verifDir, ".work"), "bounded")
		if work == "" {
			os.MkdirAll(filepath.Join(verifDir, ".work"), 0o755)
			work, _ = os.MkdirTemp(filepath.Join(verifDir, ".work"), "bounded")
		}
		ov := map[string]map[string]string{"Replace": {filepath.Join(repoDir, s.Pkg, s.File): filepath.Join(verifDir, "bounded", s.File)}}
		ovData, _ := json.Marshal(ov)
		ovPath := filepath.Join(work, "overlay.json")
		os.WriteFile(ovPath, ovData, 0o644)
		args := []string{"test", "-overlay", ovPath, "-vet=off", "-count=1", "-v", "-timeout", "120s", "-run", "^" + s.Run + "$", "./" + s.Pkg + "/"}
		cmd := exec.Command("go", args...)
		cmd.Dir = repoDir
		cmd.Env = goEnv()
		t0 := time.Now()
		raw, _ := cmd.CombinedOutput()
		res := boundedResult{Function: s.Function, Label: "bounded", Bound: s.Bound, Secs: round3(time.Since(t0).Seconds()),
			Cmd: "cd " + repoDir + " && go " + strings.Join(args, " "), Obligation: s.Function + "/bounded.nopanic"}
		sawCases := false
		for _, line := range strings.Split(string(raw), "\n") {
			if strings.HasPrefix(line, "BOUNDED-FAIL ") {
				res.Failures = append(res.Failures, strings.TrimPrefix(line, "BOUNDED-FAIL "))
			}
			if strings.HasPrefix(line, "BOUNDED-CASES ") {
				fmt.Sscanf(strings.TrimPrefix(line, "BOUNDED-CASES "), "%d", &res.Cases)
				sawCases = true
			}
		}
		if !sawCases {
			res.Error = "bounded harness did not run to completion: " + truncate(string(raw), 2000)
		}
		os.RemoveAll(work)
		out = append(out, res)
	}
	return out
}

type conformanceResult struct {
	Label  string   `json:"label"`
	Passed []string `json:"passed"`
	Failed []string `json:"failed"`
	Secs   float64  `json:"secs"`
	Cmd    string   `json:"cmd"`
	Output string   `json:"output,omitempty"`
}

// runConformance tests the assumed library models against the real libraries.
func runConformance() *conformanceResult {
	dir := filepath.Join(verifDir, "conformance")
	if _, err := os.Stat(filepath.Join(dir, "go.mod")); err != nil {
		return nil
	}
	cmd := exec.Command("go", "test", "-count=1", "-v", "-timeout", "300s", ".")
	cmd.Dir = dir
	cmd.Env = goEnv()
	t0 := time.Now()
	raw, _ := cmd.CombinedOutput()
	res := &conformanceResult{Label: "tested, not proved", Secs: round3(time.Since(t0).Seconds()), Cmd: "cd " + dir + " && go test -count=1 -v ."}
	re := regexp.MustCompile(`^--- (PASS|FAIL): (\S+)`)
	for _, line := range strings.Split(string(raw), "\n") {
		if m := re.FindStringSubmatch(strings.TrimSpace(line)); m != nil {
			if m[1] == "PASS" {
				res.Passed = append(res.Passed, m[2])
			} else {
				res.Failed = append(res.Failed, m[2])
			}
		}
	}
	if len(res.Failed) > 0 || len(res.Passed) == 0 {
		res.Output = truncate(string(raw), 4000)
	}
	return res
}

func writeBoundedReplay(run *checkRun, b boundedResult, failure string, idx int) string {
	path := filepath.Join(replayDir(run.prop), sanitize(b.Obligation)+fmt.Sprintf(".%d.replay.txt", idx))
	var sb strings.Builder
	fmt.Fprintf(&sb, "obligation: %s\nproperty: %s\nkind: bounded stand-in (executed on the real code, not a proof)\nbound: %s\n", b.Obligation, run.prop, b.Bound)
	fmt.Fprintf(&sb, "failing input: %s\nreplay: confirmed-on-real-code (the harness called the real function with this input and it panicked)\nrerun: %s\n", failure, b.Cmd)
	os.WriteFile(path, []byte(sb.String()), 0o644)
	return path
}

// ---------- must-fail canaries (thorough tier) ----------
//
// A check that always passes proves nothing about the checker. In the thorough tier every
// property re-verifies, on a scratch copy of /repo's working tree (outside /repo and /verif,
// removed afterwards), the functions hit by a set of known property-breaking edits
// (/verif/selfmut, /verif/seeded*): each must make a named obligation fail. A canary that is
// no longer caught makes the check exit 2 (its own pass is not to be believed); a canary whose
// patch no longer applies to the current tree is reported as stale and not counted.

type canarySpec struct {
	File     string `json:"file"`
	Property string `json:"property"`
	Function string `json:"function"`
	Expect   string `json:"expect"`
	Safety   bool   `json:"safety"`
}

type canaryResult struct {
	Canary   string  `json:"canary"`
	Function string  `json:"function"`
	Expect   string  `json:"expected_failing_obligation"`
	Result   string  `json:"result"` // caught | MISSED | stale
	Failing  string  `json:"failing_obligation,omitempty"`
	Secs     float64 `json:"secs"`
}

func copyTree(src, dst string) error {
	return filepath.Walk(src, func(p string, info os.FileInfo, err error) error {
		if err != nil {
			return err
		}
		rel, _ := filepath.Rel(src, p)
		if rel == ".git" || strings.HasPrefix(rel, ".git"+string(filepath.Separator)) {
			if info.IsDir() {
				return filepath.SkipDir
			}
			return nil
		}
		target := filepath.Join(dst, rel)
		if info.IsDir() {
			return os.MkdirAll(target, 0o755)
		}
		if !info.Mode().IsRegular() {
			return nil
		}
		data, err := os.ReadFile(p)
		if err != nil {
			return err
		}
		return os.WriteFile(target, data, 0o644)
	})
}

func loadCanaries(prop string) []canarySpec {
	var out []canarySpec
	matches, _ := filepath.Glob(filepath.Join(verifDir, "*", "canaries.json"))
	matches = append(matches, filepath.Join(verifDir, "selfmut", "index.json"))
	for _, idx := range matches {
		data, err := os.ReadFile(idx)
		if err != nil {
			continue
		}
		var specs []canarySpec
		if json.Unmarshal(data, &specs) != nil {
			continue
		}
		for _, s := range specs {
			if s.Property == prop {
				if !filepath.IsAbs(s.File) {
					s.File = filepath.Join(filepath.Dir(idx), s.File)
				}
				out = append(out, s)
			}
		}
	}
	return out
}

func runCanaries(prop string) []canaryResult {
	specs := loadCanaries(prop)
	if len(specs) == 0 {
		return nil
	}
	self, err := os.Executable()
	if err != nil {
		return nil
	}
	out := make([]canaryResult, len(specs))
	var wg sync.WaitGroup
	sem := make(chan struct{}, 4)
	for i, s := range specs {
		wg.Add(1)
		go func(i int, s canarySpec) {
			defer wg.Done()
			sem <- struct{}{}
			defer func() { <-sem }()
			out[i] = runCanary(self, s)
		}(i, s)
	}
	wg.Wait()
	return out
}

func runCanary(self string, s canarySpec) canaryResult {
	{
		t0 := time.Now()
		res := canaryResult{Canary: strings.TrimPrefix(s.File, verifDir+"/"), Function: s.Function, Expect: s.Expect}
		tmp, err := os.MkdirTemp("", "gocv-canary")
		if err != nil {
			res.Result = "stale"
			return res
		}
		func() {
			defer os.RemoveAll(tmp)
			if err := copyTree(repoDir, tmp); err != nil {
				res.Result = "stale"
				return
			}
			ap := exec.Command("git", "apply", "--unsafe-paths", "--directory="+tmp, s.File)
			ap.Dir = tmp
			// git apply outside a repository behaves like patch
			ap = exec.Command("git", "apply", s.File)
			ap.Dir = tmp
			ap.Env = append(os.Environ(), "GIT_DIR=/nonexistent", "GIT_CEILING_DIRECTORIES="+filepath.Dir(tmp))
			if raw, err := ap.CombinedOutput(); err != nil {
				res.Result = "stale"
				res.Failing = truncate(string(raw), 200)
				return
			}
			args := []string{"func", "-f", s.Function, "-t", "10"}
			if s.Safety {
				args = append(args, "-safety")
			}
			cmd := exec.Command(self, args...)
			cmd.Env = append(os.Environ(), "GOCV_REPO="+tmp, "GOCV_VERIF="+verifDir, "GOCV_NO_CLEANUP=1")
			raw, _ := cmd.CombinedOutput()
			res.Result = "MISSED"
			for _, line := range strings.Split(string(raw), "\n") {
				f := strings.Fields(line)
				if len(f) >= 5 && (f[0] == "sat" || f[0] == "unknown" || f[0] == "timeout" || f[0] == "error") && strings.Contains(line, s.Expect) {
					res.Result = "caught"
					res.Failing = f[len(f)-1]
					break
				}
			}
			if res.Result == "MISSED" && strings.Contains(string(raw), "function not found") {
				res.Result = "stale"
			}
		}()
		res.Secs = round3(time.Since(t0).Seconds())
		return res
	}
}
