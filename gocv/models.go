package main

// Native models of library functions (assumed contracts, implemented in Go so
// that they can depend on the dynamic type of interface arguments), builtins
// and the classification of effect-free / non-returning externs.

import (
	"fmt"
	"go/token"
	"go/types"
	"strings"

	"golang.org/x/tools/go/ssa"
)

type modelFn func(x *Exec, fr *Frame, st *State, args []Val, instr ssa.Instruction, sig *types.Signature) []Val

var nativeModels map[string]modelFn
var ifaceModels map[string]modelFn

func init() {
	nativeModels = map[string]modelFn{
		"bytes.NewReader":                modelNewReader,
		"(*bytes.Reader).Seek":           modelReaderSeek,
		"(*bytes.Reader).Read":           modelReaderRead,
		"(*bytes.Reader).Len":            modelReaderLen,
		"encoding/binary.Read":           modelBinaryRead,
		"encoding/binary.Write":          modelBinaryWrite,
		"(*bytes.Buffer).Write":          modelBufferWrite,
		"(*bytes.Buffer).WriteByte":      modelBufferWriteByte,
		"(*bytes.Buffer).Bytes":          modelBufferBytes,
		"(*bytes.Buffer).Reset":          modelBufferReset,
		"(*bytes.Buffer).Len":            modelBufferLen,
		"bytes.NewBuffer":                modelNewBuffer,
		"errors.New":                     modelNewError,
		"fmt.Errorf":                     modelNewError,
		"unicode/utf16.Decode":           modelUtf16Decode,
		"unicode/utf8.EncodeRune":        modelEncodeRune,
		"context.WithValue":              modelCtxWithValue,
		"(*net/http.Request).Context":    modelReqContext,
		"(*net/http.Request).WithContext": modelReqWithContext,
		"(*github.com/patrickmn/go-cache.cache).Get":    modelCacheGet,
		"(*github.com/patrickmn/go-cache.cache).Set":    modelCacheSet,
		"(*github.com/patrickmn/go-cache.cache).Delete": modelCacheDelete,
		"github.com/patrickmn/go-cache.New":             modelCacheNew,
	}
	ifaceModels = map[string]modelFn{
		"context.Context.Value": modelCtxValue,
		"error.Error":           modelPureIface,
	}
}

// ---------- extern classification ----------

var purePkgs = map[string]bool{"strings": true, "strconv": true, "unicode": true, "unicode/utf8": true, "unicode/utf16": true,
	"path": true, "path/filepath": true, "math": true, "math/bits": true, "encoding/hex": true, "net/url": false}

var pureFuncs = map[string]bool{
	"net.JoinHostPort": true, "net.SplitHostPort": true, "fmt.Sprintf": true, "fmt.Sprint": true, "fmt.Sprintln": true,
	"encoding/base64.(*Encoding).EncodeToString": true, "(*encoding/base64.Encoding).EncodeToString": true,
	"time.Duration.String": true, "(time.Time).Format": true, "(time.Time).Add": true,
	"encoding/hex.EncodeToString": true,
	"(*github.com/m7913d/go-ntlm/ntlm.PayloadStruct).String": true,
	"(net/http.Header).Get": true,
	"(*net/http.Request).BasicAuth": true,
	"(net/url.Values).Get": true,
}

var noEffect = map[string]bool{ // effect-free but non-deterministic
	"time.Now": true, "os.Getenv": true, "os.Stat": true, "os.IsNotExist": true, "os.TempDir": true,
}

func externKind(fn *ssa.Function) (string, bool) {
	name := fn.String()
	pkg := ""
	if fn.Pkg != nil {
		pkg = fn.Pkg.Pkg.Path()
	}
	switch pkg {
	case "log":
		switch fn.Name() {
		case "Fatal", "Fatalf", "Fatalln", "Panic", "Panicf", "Panicln":
			return "noreturn", true
		}
		return "pure", true
	case "os":
		if fn.Name() == "Exit" {
			return "noreturn", true
		}
	}
	if strings.HasPrefix(name, "(*log.Logger).") {
		if strings.HasPrefix(fn.Name(), "Fatal") || strings.HasPrefix(fn.Name(), "Panic") {
			return "noreturn", true
		}
		return "pure", true
	}
	if purePkgs[pkg] || pureFuncs[name] {
		return "pure", true
	}
	if noEffect[name] {
		return "noeffect", true
	}
	return "", false
}

// ---------- builtins ----------

func (x *Exec) builtin(fr *Frame, st *State, b *ssa.Builtin, args []Val, instr ssa.Instruction, sig *types.Signature) []Val {
	intT := types.Typ[types.Int]
	switch b.Name() {
	case "len":
		a := args[0]
		switch {
		case isSlice(a.T):
			return []Val{{T: intT, L: []string{a.sLen()}}}
		case isString(a.T):
			return []Val{{T: intT, L: []string{app("slen", a.L[0])}}}
		}
		if mt, ok := a.T.Underlying().(*types.Map); ok {
			reg, ks := mapRegion(mt)
			x.regHeap(reg+":has", SBool, ks)
			x.smt.DeclareFun("maplen."+sortTag(ks), []string{"(Array " + ks + " Bool)"}, SBV64)
			l := app("maplen."+sortTag(ks), sel(x.heapArr(st, reg+":has"), a.L[0]))
			x.smt.Assert(app("bvule", l, "#x0000010000000000"))
			return []Val{{T: intT, L: []string{ite(eq(a.L[0], "#x00000000"), bvLit(0, 64), l)}}}
		}
		if p, ok := a.T.Underlying().(*types.Pointer); ok {
			if at, ok := p.Elem().Underlying().(*types.Array); ok {
				return []Val{{T: intT, L: []string{bvLit(uint64(at.Len()), 64)}}}
			}
		}
		if _, ok := a.T.Underlying().(*types.Chan); ok {
			v := x.smt.Fresh("chanlen", SBV64)
			return []Val{{T: intT, L: []string{v}}}
		}
	case "cap":
		a := args[0]
		if isSlice(a.T) {
			return []Val{{T: intT, L: []string{a.sCap()}}}
		}
	case "append":
		return []Val{x.doAppend(fr, st, args[0], args[1], instr)}
	case "copy":
		return []Val{x.doCopy(fr, st, args[0], args[1])}
	case "delete":
		x.mapDelete(st, args[0], args[1])
		return nil
	case "print", "println":
		return nil
	case "panic":
		x.safetyOblige(fr, st, "panic", instr, "", "false")
		st.dead = true
		return nil
	case "recover":
		if x.panicMode {
			// unwinding a panic: recover returns the (non-nil) panic value and stops the unwinding
			x.didRecover = true
			r := x.freshVal(st, "recovered", sig.Results().At(0).Type())
			x.smt.Assert(implies(st.pc, not(eq(r.L[0], "inil"))))
			return []Val{r}
		}
		return []Val{zeroVal(sig.Results().At(0).Type())}
	case "close":
		return nil
	case "min", "max":
		if len(args) == 2 && isInteger(args[0].T) {
			lt := x.binop(fr, st, token.LSS, args[0], args[1], types.Typ[types.Bool], nil)
			if b.Name() == "min" {
				return []Val{{T: args[0].T, L: []string{ite(lt.L[0], args[0].L[0], args[1].L[0])}}}
			}
			return []Val{{T: args[0].T, L: []string{ite(lt.L[0], args[1].L[0], args[0].L[0])}}}
		}
	}
	x.warn("builtin %s modelled as opaque", b.Name())
	return x.freshResults(st, b.Name(), sig)
}

// copyBytes asserts dst[doff+i] = src[soff+i] for i < n in a new version of
// the element region, everything else unchanged. Regions with several leaves
// (structs) are copied leaf by leaf.
func (x *Exec) copyElems(st *State, et types.Type, dref, doff, sref, soff, n string) {
	base := "arr." + elemPrefix(et)
	for _, l := range leavesOf(et) {
		p := base + l.Path
		x.regHeap(p, l.Sort, SBV64)
		a := x.heapArr(st, p)
		inner := "(Array " + SBV64 + " " + l.Sort + ")"
		nd := x.smt.Fresh("cp", inner)
		srcArr := x.smt.Name("cpsrc", inner, sel(a, sref))
		dstArr := x.smt.Name("cpdst", inner, sel(a, dref))
		x.smt.fresh++
		q := fmt.Sprintf("q!c!%d", x.smt.fresh)
		inRange := and(app("bvuge", q, doff), app("bvult", q, app("bvadd", doff, n)))
		// (forall q) nd[q] = inRange ? src[soff + (q-doff)] : dst[q]
		x.smt.Assert(fmt.Sprintf("(forall ((%s %s)) (! (= (select %s %s) (ite %s (select %s (bvadd %s (bvsub %s %s))) (select %s %s))) :pattern ((select %s %s))))",
			q, SBV64, nd, q, inRange, srcArr, soff, q, doff, dstArr, q, nd, q))
		c := x.smt.Fresh("H."+p, x.arraySort(p))
		x.smt.Assert(eq(c, store(a, dref, nd)))
		st.heap[p] = c
		if !x.freshRefs[dref] {
			st.markDirty(p)
		}
	}
}

func (x *Exec) doCopy(fr *Frame, st *State, dst, src Val) Val {
	intT := types.Typ[types.Int]
	var slen, sref, soff string
	et := dst.T.Underlying().(*types.Slice).Elem()
	if isString(src.T) {
		// copy(dst, string): materialise the string bytes
		sv := x.doConvert(fr, st, src, types.NewSlice(types.Typ[types.Uint8]))
		slen, sref, soff = sv.sLen(), sv.sRef(), sv.sOff()
	} else {
		slen, sref, soff = src.sLen(), src.sRef(), src.sOff()
	}
	n := x.smt.Name("copyn", SBV64, ite(app("bvult", dst.sLen(), slen), dst.sLen(), slen))
	x.copyElems(st, et, dst.sRef(), dst.sOff(), sref, soff, n)
	return Val{T: intT, L: []string{n}}
}

// doAppend models append(s, t...): in place when capacity suffices, otherwise
// a fresh backing array holding the old elements followed by the new ones.
func (x *Exec) doAppend(fr *Frame, st *State, s, t Val, instr ssa.Instruction) Val {
	et := s.T.Underlying().(*types.Slice).Elem()
	var tlen, tref, toff string
	if isString(t.T) {
		tv := x.doConvert(fr, st, t, types.NewSlice(types.Typ[types.Uint8]))
		tlen, tref, toff = tv.sLen(), tv.sRef(), tv.sOff()
	} else {
		tlen, tref, toff = t.sLen(), t.sRef(), t.sOff()
	}
	newLen := x.smt.Name("applen", SBV64, app("bvadd", s.sLen(), tlen))
	fits := x.smt.Name("appfits", SBool, app("bvule", newLen, s.sCap()))
	// in-place branch
	s1 := st.clone()
	s1.pc = x.smt.Name("pc", SBool, and(st.pc, fits))
	x.copyElems(s1, et, s.sRef(), app("bvadd", s.sOff(), s.sLen()), tref, toff, tlen)
	// reallocation branch
	s2 := st.clone()
	s2.pc = x.smt.Name("pc", SBool, and(st.pc, not(fits)))
	nr := x.allocRef(s2, "app")
	x.zeroArray(s2, "arr."+elemPrefix(et), et, nr)
	x.copyElems(s2, et, nr, bvLit(0, 64), s.sRef(), s.sOff(), s.sLen())
	x.copyElems(s2, et, nr, s.sLen(), tref, toff, tlen)
	ncap := x.smt.Fresh("appcap", SBV64)
	x.smt.Assert(and(app("bvuge", ncap, newLen), app("bvule", ncap, "#x0000010000000000")))
	m := x.mergeStates([]*State{s1, s2})
	pc := st.pc
	*st = *m
	st.pc = pc
	return Val{T: s.T, L: []string{ite(fits, s.sRef(), nr), ite(fits, s.sOff(), bvLit(0, 64)), newLen, ite(fits, s.sCap(), ncap)}}
}

// ---------- errors ----------

func modelNewError(x *Exec, fr *Frame, st *State, args []Val, instr ssa.Instruction, sig *types.Signature) []Val {
	e := x.smt.Fresh("err", SIface)
	x.smt.Assert(not(eq(e, "inil")))
	return []Val{{T: sig.Results().At(0).Type(), L: []string{e}}}
}

func modelPureIface(x *Exec, fr *Frame, st *State, args []Val, instr ssa.Instruction, sig *types.Signature) []Val {
	return x.freshResults(st, "pure", sig)
}

// ---------- bytes.Reader: fields view (slice) and pos ----------

func readerFields(x *Exec, st *State, r string) (ref, off, ln, pos string) {
	ref = x.heapRead(st, "bytes.Reader.view#ref", SRef, r, "")
	off = x.heapRead(st, "bytes.Reader.view#off", SBV64, r, "")
	ln = x.heapRead(st, "bytes.Reader.view#len", SBV64, r, "")
	pos = x.heapRead(st, "bytes.Reader.pos", SBV64, r, "")
	return
}

func modelNewReader(x *Exec, fr *Frame, st *State, args []Val, instr ssa.Instruction, sig *types.Signature) []Val {
	r := x.allocRef(st, "reader")
	b := args[0]
	x.heapWrite(st, "bytes.Reader.view#ref", SRef, r, "", b.sRef())
	x.heapWrite(st, "bytes.Reader.view#off", SBV64, r, "", b.sOff())
	x.heapWrite(st, "bytes.Reader.view#len", SBV64, r, "", b.sLen())
	x.heapWrite(st, "bytes.Reader.pos", SBV64, r, "", bvLit(0, 64))
	return []Val{{T: sig.Results().At(0).Type(), L: []string{r}}}
}

func modelReaderLen(x *Exec, fr *Frame, st *State, args []Val, instr ssa.Instruction, sig *types.Signature) []Val {
	_, _, ln, pos := readerFields(x, st, args[0].L[0])
	return []Val{{T: types.Typ[types.Int], L: []string{ite(app("bvuge", pos, ln), bvLit(0, 64), app("bvsub", ln, pos))}}}
}

func modelReaderSeek(x *Exec, fr *Frame, st *State, args []Val, instr ssa.Instruction, sig *types.Signature) []Val {
	r := args[0].L[0]
	_, _, ln, pos := readerFields(x, st, r)
	off, whence := args[1].L[0], args[2].L[0]
	abs := ite(eq(whence, bvLit(0, 64)), off, ite(eq(whence, bvLit(1, 64)), app("bvadd", pos, off), app("bvadd", ln, off)))
	abs = x.smt.Name("seekabs", SBV64, abs)
	okW := or(eq(whence, bvLit(0, 64)), eq(whence, bvLit(1, 64)), eq(whence, bvLit(2, 64)))
	ok := x.smt.Name("seekok", SBool, and(okW, app("bvsge", abs, bvLit(0, 64))))
	x.heapWrite(st, "bytes.Reader.pos", SBV64, r, "", ite(ok, abs, pos))
	e := x.smt.Fresh("seekerr", SIface)
	x.smt.Assert(eq(eq(e, "inil"), ok))
	return []Val{{T: types.Typ[types.Int64], L: []string{ite(ok, abs, bvLit(0, 64))}}, {T: sig.Results().At(1).Type(), L: []string{e}}}
}

// readN consumes n bytes if available (io.ReadFull semantics on a bytes.Reader):
// returns (ok, start position).
func readerReadFull(x *Exec, st *State, r string, n string) (ok string, ref, base string) {
	ref, off, ln, pos := readerFields(x, st, r)
	rem := x.smt.Name("rem", SBV64, ite(app("bvuge", pos, ln), bvLit(0, 64), app("bvsub", ln, pos)))
	ok = x.smt.Name("rdok", SBool, app("bvuge", rem, n))
	base = x.smt.Name("rdbase", SBV64, app("bvadd", off, pos))
	// n == 0 reads nothing; otherwise on success pos += n; on failure everything left is consumed
	np := ite(ok, app("bvadd", pos, n), ite(app("bvuge", pos, ln), pos, ln))
	x.heapWrite(st, "bytes.Reader.pos", SBV64, r, "", np)
	return
}

func modelReaderRead(x *Exec, fr *Frame, st *State, args []Val, instr ssa.Instruction, sig *types.Signature) []Val {
	r := args[0].L[0]
	b := args[1]
	ref, off, ln, pos := readerFields(x, st, r)
	rem := x.smt.Name("rem", SBV64, ite(app("bvuge", pos, ln), bvLit(0, 64), app("bvsub", ln, pos)))
	n := x.smt.Name("rdn", SBV64, ite(app("bvult", b.sLen(), rem), b.sLen(), rem))
	x.copyElems(st, types.Typ[types.Uint8], b.sRef(), b.sOff(), ref, app("bvadd", off, pos), n)
	x.heapWrite(st, "bytes.Reader.pos", SBV64, r, "", app("bvadd", pos, n))
	e := x.smt.Fresh("rderr", SIface)
	// EOF iff nothing left and len(b) > 0
	x.smt.Assert(eq(eq(e, "inil"), or(not(eq(rem, bvLit(0, 64))), eq(b.sLen(), bvLit(0, 64)))))
	return []Val{{T: types.Typ[types.Int], L: []string{n}}, {T: sig.Results().At(1).Type(), L: []string{e}}}
}

// ---------- encoding/binary ----------

func leBytes(x *Exec, st *State, ref, base string, nbytes int) string {
	x.regHeap("arr.bv8", SBV8, SBV64)
	a := x.smt.Name("rdarr", "(Array "+SBV64+" "+SBV8+")", sel(x.heapArr(st, "arr.bv8"), ref))
	t := sel(a, app("bvadd", base, bvLit(uint64(nbytes-1), 64)))
	if nbytes == 1 {
		return sel(a, base)
	}
	for i := nbytes - 2; i >= 0; i-- {
		t = app("concat", t, sel(a, app("bvadd", base, bvLit(uint64(i), 64))))
	}
	return t
}

func isLittleEndian(order Val) bool {
	return order.Dyn != nil && strings.Contains(order.Dyn.T.String(), "littleEndian")
}

func modelBinaryRead(x *Exec, fr *Frame, st *State, args []Val, instr ssa.Instruction, sig *types.Signature) []Val {
	errT := sig.Results().At(0).Type()
	rd, order, data := args[0], args[1], args[2]
	if rd.Dyn == nil || !strings.HasSuffix(rd.Dyn.T.String(), "bytes.Reader") || data.Dyn == nil || !isLittleEndian(order) {
		x.warn("binary.Read with unsupported reader/target/order: havoc")
		return x.havocCall(fr, st, "encoding/binary.Read", sig, args, instr)
	}
	r := rd.Dyn.L[0]
	target := *data.Dyn
	pt, ok := target.T.Underlying().(*types.Pointer)
	if !ok {
		x.warn("binary.Read into non-pointer: havoc")
		return x.havocCall(fr, st, "encoding/binary.Read", sig, args, instr)
	}
	e := x.smt.Fresh("brerr", SIface)
	switch u := pt.Elem().Underlying().(type) {
	case *types.Basic:
		w := basicWidth(u)
		if w == 0 || u.Info()&types.IsInteger == 0 {
			break
		}
		okT, ref, base := readerReadFull(x, st, r, bvLit(uint64(w/8), 64))
		cur := x.loadVal(st, target, pt.Elem())
		nv := ite(okT, leBytes(x, st, ref, base, w/8), cur.L[0])
		x.storeVal(st, target, Val{T: pt.Elem(), L: []string{x.smt.Name("brval", bvSort(w), nv)}})
		x.smt.Assert(eq(eq(e, "inil"), okT))
		return []Val{{T: errT, L: []string{e}}}
	case *types.Slice:
		if scalarSort(u.Elem()) != SBV8 {
			break
		}
		sl := x.loadVal(st, target, pt.Elem())
		okT, ref, base := readerReadFull(x, st, r, sl.sLen())
		// on success the slice contents are the next len bytes; otherwise unchanged
		s1 := st.clone()
		s1.pc = x.smt.Name("pc", SBool, and(st.pc, okT))
		x.copyElems(s1, u.Elem(), sl.sRef(), sl.sOff(), ref, base, sl.sLen())
		s2 := st.clone()
		s2.pc = x.smt.Name("pc", SBool, and(st.pc, not(okT)))
		m := x.mergeStates([]*State{s1, s2})
		pc := st.pc
		*st = *m
		st.pc = pc
		x.smt.Assert(eq(eq(e, "inil"), okT))
		return []Val{{T: errT, L: []string{e}}}
	}
	x.warn("binary.Read into %v: havoc", pt.Elem())
	return x.havocCall(fr, st, "encoding/binary.Read", sig, args, instr)
}

// ---------- bytes.Buffer: the object's own ref is its backing array; field len ----------

func bufLen(x *Exec, st *State, b string) string {
	return x.heapRead(st, "bytes.Buffer.len", SBV64, b, "")
}

func bufAppendBytes(x *Exec, st *State, b string, bytes []string) {
	x.regHeap("arr.bv8", SBV8, SBV64)
	ln := bufLen(x, st, b)
	a := x.heapArr(st, "arr.bv8")
	inner := sel(a, b)
	for i, by := range bytes {
		inner = store(inner, app("bvadd", ln, bvLit(uint64(i), 64)), by)
	}
	c := x.smt.Fresh("H.arr.bv8", x.arraySort("arr.bv8"))
	x.smt.Assert(eq(c, store(a, b, inner)))
	st.heap["arr.bv8"] = c
	if !x.freshRefs[b] {
		st.markDirty("arr.bv8")
	}
	x.heapWrite(st, "bytes.Buffer.len", SBV64, b, "", app("bvadd", ln, bvLit(uint64(len(bytes)), 64)))
}

func modelBinaryWrite(x *Exec, fr *Frame, st *State, args []Val, instr ssa.Instruction, sig *types.Signature) []Val {
	errT := sig.Results().At(0).Type()
	w, order, data := args[0], args[1], args[2]
	if w.Dyn == nil || !strings.HasSuffix(w.Dyn.T.String(), "bytes.Buffer") || data.Dyn == nil || !isLittleEndian(order) {
		x.warn("binary.Write with unsupported writer/data/order: havoc")
		return x.havocCall(fr, st, "encoding/binary.Write", sig, args, instr)
	}
	b := w.Dyn.L[0]
	d := *data.Dyn
	if bt, ok := d.T.Underlying().(*types.Basic); ok && bt.Info()&types.IsInteger != 0 {
		wd := basicWidth(bt)
		var bs []string
		for i := 0; i < wd/8; i++ {
			bs = append(bs, fmt.Sprintf("((_ extract %d %d) %s)", 8*i+7, 8*i, d.L[0]))
		}
		bufAppendBytes(x, st, b, bs)
		return []Val{{T: errT, L: []string{"inil"}}}
	}
	if isSlice(d.T) && scalarSort(d.T.Underlying().(*types.Slice).Elem()) == SBV8 {
		ln := bufLen(x, st, b)
		x.copyElems(st, types.Typ[types.Uint8], b, ln, d.sRef(), d.sOff(), d.sLen())
		x.heapWrite(st, "bytes.Buffer.len", SBV64, b, "", app("bvadd", ln, d.sLen()))
		return []Val{{T: errT, L: []string{"inil"}}}
	}
	x.warn("binary.Write of %v: havoc", d.T)
	return x.havocCall(fr, st, "encoding/binary.Write", sig, args, instr)
}

func modelBufferWrite(x *Exec, fr *Frame, st *State, args []Val, instr ssa.Instruction, sig *types.Signature) []Val {
	b, d := args[0].L[0], args[1]
	x.safetyOblige(fr, st, "nil", instr, "", nonNilTerm(args[0]))
	ln := bufLen(x, st, b)
	x.copyElems(st, types.Typ[types.Uint8], b, ln, d.sRef(), d.sOff(), d.sLen())
	x.heapWrite(st, "bytes.Buffer.len", SBV64, b, "", app("bvadd", ln, d.sLen()))
	return []Val{{T: types.Typ[types.Int], L: []string{d.sLen()}}, {T: sig.Results().At(1).Type(), L: []string{"inil"}}}
}

func modelBufferWriteByte(x *Exec, fr *Frame, st *State, args []Val, instr ssa.Instruction, sig *types.Signature) []Val {
	bufAppendBytes(x, st, args[0].L[0], []string{args[1].L[0]})
	return []Val{{T: sig.Results().At(0).Type(), L: []string{"inil"}}}
}

func modelBufferBytes(x *Exec, fr *Frame, st *State, args []Val, instr ssa.Instruction, sig *types.Signature) []Val {
	b := args[0].L[0]
	ln := bufLen(x, st, b)
	cp := x.smt.Fresh("bufcap", SBV64)
	x.smt.Assert(and(app("bvuge", cp, ln), app("bvule", cp, "#x0000010000000000")))
	return []Val{{T: sig.Results().At(0).Type(), L: []string{b, bvLit(0, 64), ln, cp}}}
}

func modelBufferLen(x *Exec, fr *Frame, st *State, args []Val, instr ssa.Instruction, sig *types.Signature) []Val {
	return []Val{{T: types.Typ[types.Int], L: []string{bufLen(x, st, args[0].L[0])}}}
}

func modelBufferReset(x *Exec, fr *Frame, st *State, args []Val, instr ssa.Instruction, sig *types.Signature) []Val {
	x.heapWrite(st, "bytes.Buffer.len", SBV64, args[0].L[0], "", bvLit(0, 64))
	return nil
}

func modelNewBuffer(x *Exec, fr *Frame, st *State, args []Val, instr ssa.Instruction, sig *types.Signature) []Val {
	b := x.allocRef(st, "buffer")
	d := args[0]
	x.heapWrite(st, "bytes.Buffer.len", SBV64, b, "", bvLit(0, 64))
	x.copyElems(st, types.Typ[types.Uint8], b, bvLit(0, 64), d.sRef(), d.sOff(), d.sLen())
	x.heapWrite(st, "bytes.Buffer.len", SBV64, b, "", d.sLen())
	return []Val{{T: sig.Results().At(0).Type(), L: []string{b}}}
}

// ---------- unicode ----------

func modelUtf16Decode(x *Exec, fr *Frame, st *State, args []Val, instr ssa.Instruction, sig *types.Signature) []Val {
	// result has between 0 and len(s) runes; for a one-element input exactly one.
	s := args[0]
	r := x.allocRef(st, "runes")
	ln := x.smt.Fresh("nrunes", SBV64)
	x.smt.Assert(and(app("bvule", ln, s.sLen()), implies(eq(s.sLen(), bvLit(1, 64)), eq(ln, bvLit(1, 64)))))
	x.regHeap("arr.bv32", bvSort(32), SBV64)
	x.havocAt(st, "arr.bv32", r, "")
	return []Val{{T: sig.Results().At(0).Type(), L: []string{r, bvLit(0, 64), ln, ln}}}
}

func modelEncodeRune(x *Exec, fr *Frame, st *State, args []Val, instr ssa.Instruction, sig *types.Signature) []Val {
	p := args[0]
	n := x.smt.Fresh("runebytes", SBV64)
	x.smt.Assert(and(app("bvuge", n, bvLit(1, 64)), app("bvule", n, bvLit(4, 64))))
	// utf8.EncodeRune panics when the buffer is too short
	x.safetyOblige(fr, st, "bounds", instr, "", app("bvuge", p.sLen(), bvLit(4, 64)))
	x.havocReachable(st, p)
	return []Val{{T: types.Typ[types.Int], L: []string{n}}}
}

// ---------- context: a functional map from key (interface) to value ----------
// ctxmap : Array Ref (Array Iface Iface); Context values are interfaces whose
// iref payload identifies the map.

func ctxRef(x *Exec, c Val) string { return app("iref", c.L[0]) }

func modelCtxWithValue(x *Exec, fr *Frame, st *State, args []Val, instr ssa.Instruction, sig *types.Signature) []Val {
	parent, key, val := args[0], args[1], args[2]
	r := x.allocRef(st, "ctx")
	x.regHeap("ctx.vals", SIface, SIface)
	a := x.heapArr(st, "ctx.vals")
	c := x.smt.Fresh("H.ctx", x.arraySort("ctx.vals"))
	x.smt.Assert(eq(c, store(a, r, store(sel(a, ctxRef(x, parent)), key.L[0], val.L[0]))))
	st.heap["ctx.vals"] = c
	tag := x.typeID(types.NewPointer(types.NewStruct(nil, nil)))
	term := app("mkiref", "#xfffe", r)
	_ = tag
	x.smt.Assert(and(eq(app("iref", term), r), not(eq(term, "inil")), eq(app("ityp", term), "#xfffe")))
	return []Val{{T: sig.Results().At(0).Type(), L: []string{term}}}
}

func modelCtxValue(x *Exec, fr *Frame, st *State, args []Val, instr ssa.Instruction, sig *types.Signature) []Val {
	c, key := args[0], args[1]
	x.regHeap("ctx.vals", SIface, SIface)
	v := sel(sel(x.heapArr(st, "ctx.vals"), ctxRef(x, c)), key.L[0])
	return []Val{{T: sig.Results().At(0).Type(), L: []string{v}}}
}

func modelReqContext(x *Exec, fr *Frame, st *State, args []Val, instr ssa.Instruction, sig *types.Signature) []Val {
	x.safetyOblige(fr, st, "nil", instr, "", nonNilTerm(args[0]))
	c := x.heapRead(st, "http.Request.ctx", SIface, args[0].L[0], "")
	x.smt.Assert(implies(st.pc, not(eq(c, "inil"))))
	return []Val{{T: sig.Results().At(0).Type(), L: []string{c}}}
}

func modelReqWithContext(x *Exec, fr *Frame, st *State, args []Val, instr ssa.Instruction, sig *types.Signature) []Val {
	x.safetyOblige(fr, st, "nil", instr, "", nonNilTerm(args[0]))
	r := x.allocRef(st, "req")
	// shallow copy: all known http.Request fields
	for hk := range x.heapSort {
		if strings.HasPrefix(hk, "http.Request.") && x.heap2[hk] == "" {
			x.heapWrite(st, hk, x.heapSort[hk], r, "", x.heapRead(st, hk, x.heapSort[hk], args[0].L[0], ""))
		}
	}
	x.heapWrite(st, "http.Request.ctx", SIface, r, "", args[1].L[0])
	x.heapWrite(st, "http.Request.copyOf", SRef, r, "", args[0].L[0])
	return []Val{{T: sig.Results().At(0).Type(), L: []string{r}}}
}

// ---------- go-cache: a functional map key -> interface per cache object ----------
// Get may report "not found" at any time (expiry); found implies the value
// stored by the last Set under the same key.

func modelCacheSet(x *Exec, fr *Frame, st *State, args []Val, instr ssa.Instruction, sig *types.Signature) []Val {
	c, k, v := args[0].L[0], args[1].L[0], args[2].L[0]
	x.safetyOblige(fr, st, "nil", instr, "", nonNilTerm(args[0]))
	x.heapWrite(st, "map:Str:gocache:has", SBool, c, k, "true")
	x.heapWrite(st, "map:Str:gocache:val", SIface, c, k, v)
	x.heapWrite(st, "gocache.lastSetTTL", SBV64, c, "", args[3].L[0])
	return nil
}

func modelCacheGet(x *Exec, fr *Frame, st *State, args []Val, instr ssa.Instruction, sig *types.Signature) []Val {
	c, k := args[0].L[0], args[1].L[0]
	x.safetyOblige(fr, st, "nil", instr, "", nonNilTerm(args[0]))
	has := x.heapRead(st, "map:Str:gocache:has", SBool, c, k)
	val := x.heapRead(st, "map:Str:gocache:val", SIface, c, k)
	found := x.smt.Fresh("cache.found", SBool)
	x.smt.Assert(implies(found, has))
	// ghost record of the lookup (declared in http.spec): outcome, key and cache of the last Get
	if g, ok := st.ghost["cacheFound"]; ok {
		st.ghost["cacheFound"] = Val{T: g.T, L: []string{found}}
	}
	if g, ok := st.ghost["cacheFoundKey"]; ok {
		st.ghost["cacheFoundKey"] = Val{T: g.T, L: []string{k}}
	}
	if g, ok := st.ghost["cacheFoundIn"]; ok {
		st.ghost["cacheFoundIn"] = Val{T: g.T, L: []string{c}}
	}
	return []Val{{T: sig.Results().At(0).Type(), L: []string{ite(found, val, "inil")}}, {T: types.Typ[types.Bool], L: []string{found}}}
}

func modelCacheDelete(x *Exec, fr *Frame, st *State, args []Val, instr ssa.Instruction, sig *types.Signature) []Val {
	c, k := args[0].L[0], args[1].L[0]
	x.safetyOblige(fr, st, "nil", instr, "", nonNilTerm(args[0]))
	x.heapWrite(st, "map:Str:gocache:has", SBool, c, k, "false")
	return nil
}

func modelCacheNew(x *Exec, fr *Frame, st *State, args []Val, instr ssa.Instruction, sig *types.Signature) []Val {
	outer := x.allocRef(st, "gocache")
	inner := x.allocRef(st, "gocache.inner")
	x.heapWrite(st, "patrickmn_go-cache.Cache.cache", SRef, outer, "", inner)
	x.regHeap("map:Str:gocache:has", SBool, SStr)
	a := x.heapArr(st, "map:Str:gocache:has")
	c := x.smt.Fresh("H.gocache", x.arraySort("map:Str:gocache:has"))
	x.smt.Assert(eq(c, store(a, inner, "((as const (Array Str Bool)) false)")))
	st.heap["map:Str:gocache:has"] = c
	x.heapWrite(st, "gocache.defaultTTL", SBV64, inner, "", args[0].L[0])
	return []Val{{T: sig.Results().At(0).Type(), L: []string{outer}}}
}
