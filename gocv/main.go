package main

import (
	"encoding/json"
	"flag"
	"fmt"
	"os"
	"path/filepath"
	"regexp"
	"sort"
	"strconv"
	"strings"
	"sync"
	"time"

	"golang.org/x/tools/go/ssa"
)

var (
	verifDir = "/verif"
	repoDir  = "/repo"
)

var loadPatterns = []string{"./cmd/rdpgw/...", "./cmd/auth/ntlm", "./cmd/auth/database", "./cmd/auth/config", "./shared/..."}

func main() {
	if len(os.Args) < 2 {
		fmt.Fprintln(os.Stderr, "usage: gocv check|func|lock|list|replay ...")
		os.Exit(2)
	}
	if v := os.Getenv("GOCV_VERIF"); v != "" {
		verifDir = v
	}
	if v := os.Getenv("GOCV_REPO"); v != "" {
		repoDir = v
	}
	defer cleanupWork()
	code := 0
	switch os.Args[1] {
	case "check":
		code = cmdCheck(os.Args[2:])
	case "func":
		code = cmdFunc(os.Args[2:])
	case "lock":
		code = cmdLock(os.Args[2:])
	case "sweep":
		code = cmdSweep(os.Args[2:])
	case "list":
		code = cmdList(os.Args[2:])
	case "replay":
		code = cmdReplay(os.Args[2:])
	default:
		fmt.Fprintln(os.Stderr, "unknown command", os.Args[1])
		code = 2
	}
	cleanupWork()
	os.Exit(code)
}

func mustLoad() *Program {
	t0 := time.Now()
	prog, err := loadProgram(repoDir, loadPatterns, filepath.Join(verifDir, "contracts"))
	if err != nil {
		fmt.Fprintln(os.Stderr, "load failed:", err)
		cleanupWork()
		os.Exit(2)
	}
	prog.loadSecs = time.Since(t0).Seconds()
	prog.loadLocalsLock(filepath.Join(verifDir, "locals.lock"))
	prog.loadFieldsLock(filepath.Join(verifDir, "fields.lock"))
	if len(prog.contracts.Errors) > 0 {
		for _, e := range prog.contracts.Errors {
			fmt.Fprintln(os.Stderr, "contract error:", e)
		}
		cleanupWork()
		os.Exit(2)
	}
	return prog
}

func hasTag(tags []string, p string) bool {
	for _, t := range tags {
		if t == p {
			return true
		}
	}
	return false
}

// functionsFor returns the functions that carry a clause tagged with property p.
func functionsFor(prog *Program, p string) []*Contract {
	var cs []*Contract
	for _, k := range sortedKeys(prog.contracts.ByKey) {
		c := prog.contracts.ByKey[k]
		if c.Kind != "func" {
			continue
		}
		for _, cl := range c.Clauses {
			if hasTag(cl.Tags, p) {
				cs = append(cs, c)
				break
			}
		}
	}
	return cs
}

func contractWantsSafety(c *Contract, p string) bool {
	for _, cl := range c.Clauses {
		if cl.Kind == "nopanic" && hasTag(cl.Tags, p) {
			return true
		}
	}
	return false
}

type Finding struct {
	Kind       string // finding | fixed
	Property   string
	Obligation string
	Text       string
}

func loadFindings() []Finding {
	var fs []Finding
	data, err := os.ReadFile(filepath.Join(verifDir, "known_findings.txt"))
	if err != nil {
		return nil
	}
	re := regexp.MustCompile(`^(finding|fixed):\s+property=(\S+)\s+(?:obligation=(\S+)\s+)?(.*)$`)
	for _, line := range strings.Split(string(data), "\n") {
		line = strings.TrimSpace(line)
		if m := re.FindStringSubmatch(line); m != nil {
			fs = append(fs, Finding{m[1], m[2], m[3], m[4]})
		}
	}
	return fs
}

var partSuffix = regexp.MustCompile(`~p\d+$`)

func baseName(n string) string {
	n = partSuffix.ReplaceAllString(n, "")
	if i := strings.LastIndex(n, "#"); i > 0 {
		if _, err := strconv.Atoi(n[i+1:]); err == nil {
			return n[:i]
		}
	}
	return n
}

func lockName(n string) string {
	n = baseName(n)
	// drop the site suffix (source text of the call or the back edge): the lock pins clauses
	if i := strings.Index(n, "@"); i > 0 {
		n = n[:i]
	}
	return n
}

func loadLock() map[string][]string {
	m := map[string][]string{}
	data, err := os.ReadFile(filepath.Join(verifDir, "obligations.lock"))
	if err != nil {
		return m
	}
	for _, line := range strings.Split(string(data), "\n") {
		fs := strings.SplitN(strings.TrimSpace(line), " ", 2)
		if len(fs) == 2 && !strings.HasPrefix(fs[0], "#") {
			m[fs[0]] = append(m[fs[0]], strings.TrimSpace(fs[1]))
		}
	}
	return m
}

type checkRun struct {
	prog     *Program
	prop     string
	tier     string
	results  []*FuncResult
	obls     []*Obligation
	skipped  int
	solveSec float64
	wins     map[string]int
	covers   int
	coversUnknown int
	coversDead    int
	sweepExcluded []string
	trustedRepo   []string
	bounded       []boundedResult
	conformance   *conformanceResult
	canaries      []canaryResult
}

func selectObligations(fr *FuncResult, prop string) (sel []*Obligation, skipped int) {
	for _, o := range fr.Obls {
		if len(o.Tags) == 0 || hasTag(o.Tags, prop) {
			sel = append(sel, o)
		} else {
			skipped++
		}
	}
	return
}

func solveAll(obls []*Obligation, timeoutS int, confirm bool) (float64, map[string]int) {
	var wg sync.WaitGroup
	var mu sync.Mutex
	wins := map[string]int{}
	total := 0.0
	sem := make(chan struct{}, 12)
	for _, o := range obls {
		wg.Add(1)
		go func(o *Obligation) {
			defer wg.Done()
			sem <- struct{}{}
			defer func() { <-sem }()
			q := o.Query()
			qf := o.QueryQF()
			r := SolveWithQF(q, qf, timeoutS, confirm, o.Name)
			o.Result = &r
			mu.Lock()
			total += r.Secs
			wins[r.Solver]++
			mu.Unlock()
		}(o)
	}
	wg.Wait()
	return total, wins
}

func cmdCheck(args []string) int {
	fs := flag.NewFlagSet("check", flag.ExitOnError)
	prop := fs.String("p", "", "property id")
	tier := fs.String("tier", os.Getenv("VERIF_TIER"), "quick|thorough")
	verbose := fs.Bool("v", false, "verbose")
	keep := fs.Bool("keep", false, "keep failing queries")
	fs.Parse(args)
	if *tier == "" {
		*tier = "quick"
	}
	if *prop == "" {
		fmt.Fprintln(os.Stderr, "check: -p required")
		return 2
	}
	t0 := time.Now()
	prog := mustLoad()
	run := &checkRun{prog: prog, prop: *prop, tier: *tier}
	ctrs := functionsFor(prog, *prop)
	if len(ctrs) == 0 {
		fmt.Printf("no function carries a clause tagged %s\n", *prop)
		return 2
	}
	type job struct {
		fn  *ssa.Function
		ctr *Contract
	}
	var jobs []job
	seenFn := map[*ssa.Function]bool{}
	for _, c := range ctrs {
		fn := prog.funcByKey[c.Key]
		if fn == nil {
			fmt.Printf("contract target not found: %s\n", c.Key)
			continue
		}
		if isTrusted(c) {
			run.trustedRepo = append(run.trustedRepo, prog.relName(fn))
			continue
		}
		jobs = append(jobs, job{fn, c})
		seenFn[fn] = true
	}
	if *prop == "C10" {
		// zero-annotation sweep: every function of the packages that handle client input
		for _, fn := range sweepFunctions(prog) {
			if c := prog.contractFor(fn); c != nil && isTrusted(c) {
				continue
			}
			if !seenFn[fn] && !sweepExcluded(prog, fn) {
				jobs = append(jobs, job{fn, prog.contractFor(fn)})
				seenFn[fn] = true
			}
		}
		run.sweepExcluded = sweepExcludedNames(prog)
	}
	engineErr := false
	for _, j := range jobs {
		fn, c := j.fn, j.ctr
		// C10: run-time safety of everything in the packages that handle client input; a function outside
		// them (start-up code in package main) only answers for its own C10 clauses unless it says nopanic[C10]
		opts := VerifyOpts{Safety: (*prop == "C10" && inSweepPkgs(fn)) || (c != nil && contractWantsSafety(c, *prop)), SafetyTags: []string{*prop}, Liveness: *prop == "C20"}
		fr := verifyFunction(prog, fn, c, opts)
		run.results = append(run.results, fr)
		sel, sk := selectObligations(fr, *prop)
		run.obls = append(run.obls, sel...)
		run.skipped += sk
		for _, u := range fr.Unsupp {
			fmt.Printf("ENGINE-LIMIT %s: %s\n", prog.relName(fn), u)
			engineErr = true
		}
		if *verbose {
			for _, w := range fr.Warnings {
				fmt.Printf("warning %s: %s\n", prog.relName(fn), w)
			}
		}
	}
	timeout := 60 // per obligation: the slowest claimed obligation needs about 8 s (30 s were exceeded once with six checks and a failing proof side by side), everything else under 5 s
	confirm := false
	if *tier == "thorough" {
		timeout = 120
		confirm = true
	}
	run.solveSec, run.wins = solveAll(run.obls, timeout, confirm)
	// vacuity: entry and every return of each function must be reachable under its assumptions
	var allCovers []*Cover
	for _, fr := range run.results {
		for _, c := range fr.Covers {
			// a proved site clause cannot cut off the states after it: its cover is only needed when the
			// clause failed (known finding or violation)
			if c.before != "" && (c.oblig == nil || c.oblig.Result == nil || c.oblig.Result.Status == "unsat") {
				continue
			}
			allCovers = append(allCovers, c)
		}
	}
	coverTimeout := 3
	if *tier == "thorough" {
		coverTimeout = 20
	}
	if vac := solveCovers(allCovers, coverTimeout); vac > 0 {
		engineErr = true
	}
	for _, c := range allCovers {
		switch c.Result.Status {
		case "unsat":
			run.coversDead++
			if engineErr {
				fmt.Printf("VACUOUS %s: unreachable under the contract's assumptions\n", c.Name)
			}
		case "sat":
			run.covers++
		default:
			run.coversUnknown++
		}
	}
	run.bounded = runBounded(*prop)
	for _, b := range run.bounded {
		if b.Error != "" {
			fmt.Printf("ENGINE-LIMIT bounded stand-in %s: %s\n", b.Function, b.Error)
			engineErr = true
		}
	}
	if *tier == "thorough" {
		run.conformance = runConformance()
		if run.conformance != nil && (len(run.conformance.Failed) > 0 || len(run.conformance.Passed) == 0) {
			fmt.Printf("ASSUMPTION-BROKEN: conformance tests of the assumed library models failed: %v\n%s\n", run.conformance.Failed, run.conformance.Output)
			engineErr = true
		}
	}
	if *tier == "thorough" || os.Getenv("GOCV_CANARIES") != "" {
		run.canaries = runCanaries(*prop)
		for _, c := range run.canaries {
			if c.Result == "MISSED" {
				fmt.Printf("CANARY-MISSED %s: the property-breaking edit is no longer caught by %s (expected a failing obligation matching %q)\n", c.Canary, c.Function, c.Expect)
				engineErr = true
			}
		}
	}
	code := report(run, time.Since(t0).Seconds(), *verbose, *keep, engineErr)
	return code
}

func report(run *checkRun, wall float64, verbose, keep bool, engineErr bool) int {
	prop := run.prop
	if run.tier == "thorough" {
		replayDeadline = time.Now().Add(600 * time.Second)
	} else {
		replayDeadline = time.Now().Add(90 * time.Second)
	}
	findings := loadFindings()
	known := map[string]Finding{}
	for _, f := range findings {
		if f.Kind == "finding" && f.Property == prop && f.Obligation != "" {
			known[f.Obligation] = f
			// a finding at a call site is the clause at ONE call site of the function: the source text
			// of the call (after '@') may change with a harmless edit (renamed argument), so the finding
			// is also matched by function and clause, for the first call site that fails only
			if lockName(f.Obligation) != f.Obligation {
				known[lockName(f.Obligation)] = f
			}
		}
	}
	lock := loadLock()
	knownSite := map[string]string{}
	discharged, violations, knownHits := 0, 0, 0
	var samples []map[string]any
	var lines []string
	produced := map[string]bool{}
	seenKnown := map[string]bool{}
	sort.SliceStable(run.obls, func(i, j int) bool { return run.obls[i].Name < run.obls[j].Name })
	for _, o := range run.obls {
		produced[lockName(o.Name)] = true
		r := o.Result
		if r == nil {
			continue
		}
		if len(samples) < 12 {
			samples = append(samples, map[string]any{"obligation": o.Name, "kind": o.Kind, "status": r.Status, "solver": r.Solver, "secs": round3(r.Secs), "query_bytes": len(o.Query())})
		}
		if verbose {
			fmt.Printf("  %-8s %-7s %6.2fs %s\n", r.Status, r.Solver, r.Secs, o.Name)
		}
		if r.Status == "unsat" {
			discharged++
			continue
		}
		f, ok := known[baseName(o.Name)]
		if ok && lockName(o.Name) != baseName(o.Name) {
			if _, seen := knownSite[lockName(o.Name)]; !seen {
				knownSite[lockName(o.Name)] = baseName(o.Name)
			}
		}
		if !ok {
			if kf, ok2 := known[lockName(o.Name)]; ok2 && lockName(o.Name) != baseName(o.Name) {
				site := baseName(o.Name)
				if first, seen := knownSite[lockName(o.Name)]; !seen || first == site {
					knownSite[lockName(o.Name)] = site
					f, ok = kf, true
				}
			}
		}
		if ok {
			if !seenKnown[baseName(o.Name)] {
				lines = append(lines, fmt.Sprintf("KNOWN-FINDING: property=%s %s [%s] %s", prop, baseName(o.Name), r.Status, f.Text))
				seenKnown[baseName(o.Name)] = true
			}
			knownHits++
			continue
		}
		violations++
		path := writeReplay(run, o, keep)
		suffix := ""
		if !replayConfirmed(path) {
			suffix = " no-failing-input-found"
		}
		lines = append(lines, fmt.Sprintf("VIOLATION property=%s replay=%s%s", prop, path, suffix))
		lines = append(lines, fmt.Sprintf("  obligation %s failed (%s by %s) at %s", o.Name, r.Status, r.Solver, o.Pos))
	}
	// bounded stand-ins (executed, not proved): a failing case is a replayed violation
	boundedCases := 0
	for _, b := range run.bounded {
		boundedCases += b.Cases
		produced[b.Obligation] = true
		for i, f := range b.Failures {
			if kf, ok := known[b.Obligation]; ok {
				if !seenKnown[b.Obligation] {
					lines = append(lines, fmt.Sprintf("KNOWN-FINDING: property=%s %s [bounded] %s", prop, b.Obligation, kf.Text))
					seenKnown[b.Obligation] = true
				}
				continue
			}
			violations++
			path := writeBoundedReplay(run, b, f, i)
			lines = append(lines, fmt.Sprintf("VIOLATION property=%s replay=%s", prop, path))
			lines = append(lines, fmt.Sprintf("  bounded stand-in %s failed on the real code: %s", b.Obligation, f))
			if i >= 4 {
				break
			}
		}
	}
	// lock: every locked clause must still produce obligations
	for _, want := range lock[prop] {
		if !produced[want] {
			violations++
			path := writeMissing(run, want)
			lines = append(lines, fmt.Sprintf("VIOLATION property=%s replay=%s no-failing-input-found", prop, path))
			lines = append(lines, fmt.Sprintf("  locked obligation %s is no longer generated (function or clause missing): the proof is not carried out", want))
		}
	}
	for _, l := range lines {
		fmt.Println(l)
	}
	total := len(run.obls)
	if len(run.bounded) > 0 {
		fmt.Printf("bounded stand-ins (not proof): %d function(s), %d cases executed on the real code\n", len(run.bounded), boundedCases)
	}
	if len(run.canaries) > 0 {
		caught, stale := 0, 0
		for _, c := range run.canaries {
			switch c.Result {
			case "caught":
				caught++
			case "stale":
				stale++
			}
		}
		fmt.Printf("must-fail canaries: %d caught, %d missed, %d stale (patch no longer applies)\n", caught, len(run.canaries)-caught-stale, stale)
	}
	if run.conformance != nil {
		fmt.Printf("conformance of assumed library models (tested, not proved): %d passed, %d failed\n", len(run.conformance.Passed), len(run.conformance.Failed))
	}
	fmt.Printf("property %s tier %s: %d functions under contract, %d obligations, %d discharged, %d known-finding, %d violations, %d of other properties skipped; solver %.1fs wall %.1fs\n",
		prop, run.tier, len(run.results), total, discharged, knownHits, violations, run.skipped, run.solveSec, wall)
	writeEvidence(run, total, discharged, knownHits, violations, samples, wall)
	if total == 0 {
		fmt.Println("no obligations generated: vacuous run")
		return 2
	}
	if violations > 0 {
		return 1
	}
	if engineErr {
		return 2
	}
	return 0
}

func round3(f float64) float64 { return float64(int(f*1000)) / 1000 }

func replayConfirmed(path string) bool {
	data, err := os.ReadFile(path)
	if err != nil {
		return false
	}
	return strings.Contains(string(data), "confirmed-on-real-code")
}

func replayDir(prop string) string {
	d := filepath.Join(verifDir, "replay", prop)
	os.MkdirAll(d, 0o755)
	return d
}

func writeMissing(run *checkRun, name string) string {
	path := filepath.Join(replayDir(run.prop), sanitize(name)+".missing.txt")
	os.WriteFile(path, []byte(fmt.Sprintf("obligation: %s\nstatus: not generated\nThe locked contract clause or its function no longer exists in /repo; no counterexample can exist for a proof that is not carried out.\n", name)), 0o644)
	return path
}

func writeEvidence(run *checkRun, total, discharged, knownHits, violations int, samples []map[string]any, wall float64) {
	var fns []string
	trusted := map[string]bool{}
	inlined := map[string]bool{}
	var warnings []string
	for _, r := range run.results {
		fns = append(fns, run.prog.relName(r.Fn))
		for _, t := range r.Trusted {
			trusted[t] = true
		}
		for _, t := range r.Inlined {
			inlined[t] = true
		}
		for _, w := range r.Warnings {
			warnings = append(warnings, run.prog.relName(r.Fn)+": "+w)
		}
	}
	seed, _ := strconv.Atoi(os.Getenv("VERIF_SEED"))
	tb := sortedKeys(trusted)
	tb = append(tb, "gocv VC generator (go/ssa -> SMT)", "go/packages+go/types+go/ssa x/tools v0.29.0", "z3 4.8.12, z3 5.1.0, cvc5 1.0.3")
	ev := map[string]any{
		"property_id": run.prop,
		"tier":        run.tier,
		"seed":        seed,
		"level":       "proof",
		"wall_s":      round3(wall),
		"violations":  violations,
		"coverage": map[string]any{
			"obligations":              total - knownHits,
			"discharged":               discharged + 0,
			"obligations_generated":    total,
			"known_findings_hit":       knownHits,
			"checker_cmd":              fmt.Sprintf("bin/gocv check -p %s -tier %s", run.prop, run.tier),
			"trusted_base":             tb,
			"functions_under_contract": fns,
			"inlined_callees":          sortedKeys(inlined),
			"solver_wins":              run.wins,
			"obligations_by_kind":      kindCounts(run.obls),
			"slowest_obligations":      slowest(run.obls, 5),
			"solver_seconds":           round3(run.solveSec),
			"load_seconds":             round3(run.prog.loadSecs),
			"samples":                  samples,
			"skipped_other_properties": run.skipped,
			"sweep_excluded":           run.sweepExcluded,
			"trusted_repo_contracts":   run.trustedRepo,
			"cover_points_reachable":   run.covers,
			"cover_points_inconclusive": run.coversUnknown,
			"cover_points_dead_code":    run.coversDead,
			"contract_files":           run.prog.contracts.Files,
			"engine_warnings":          warnings,
			"bounded_standins":         run.bounded,
			"library_model_conformance": run.conformance,
			"must_fail_canaries":        run.canaries,
		},
		"assumptions": assumptionsFor(run.prop, tb),
	}
	os.MkdirAll(filepath.Join(verifDir, "evidence"), 0o755)
	data, _ := json.MarshalIndent(ev, "", " ")
	os.WriteFile(filepath.Join(verifDir, "evidence", run.prop+".json"), append(data, '\n'), 0o644)
}

func assumptionsFor(prop string, trusted []string) []string {
	base := []string{
		"machine integers are modelled exactly as bit-vectors; slice lengths/capacities are assumed <= 2^40",
		"sequential semantics: goroutines are not interleaved; spawned functions are verified separately",
		"extern functions without contract: results unconstrained, only memory directly reachable from pointer/slice arguments is havocked",
		"termination is not verified",
	}
	// the statement of what this property's claim rests on (claims.json, also in MANIFEST level_note)
	if data, err := os.ReadFile(filepath.Join(verifDir, "claims.json")); err == nil {
		var m map[string]map[string]string
		if json.Unmarshal(data, &m) == nil && m[prop]["note"] != "" {
			base = append(base, m[prop]["note"])
		}
	}
	data, err := os.ReadFile(filepath.Join(verifDir, "contracts", "assumptions.json"))
	if err == nil {
		var m map[string][]string
		if json.Unmarshal(data, &m) == nil {
			base = append(base, m[prop]...)
		}
	}
	// every unchecked ingredient this run actually used
	for _, t := range trusted {
		switch {
		case strings.HasPrefix(t, "contract:extern:"), strings.HasPrefix(t, "contract:iface:"), strings.HasPrefix(t, "contract:functype:"):
			base = append(base, "assumed contract on a dependency or callback (not proved): "+strings.SplitN(t, ":", 3)[2])
		case strings.HasPrefix(t, "model:"):
			base = append(base, "native model of a library function (conformance-tested in the thorough tier where executable): "+t[6:])
		case strings.HasPrefix(t, "pure:"):
			base = append(base, "library function treated as a pure uninterpreted function: "+t[5:])
		case strings.HasPrefix(t, "havoc:"):
			base = append(base, "library function without contract, results and reachable memory havocked, assumed not to panic: "+t[6:])
		case strings.HasPrefix(t, "noreturn:"):
			base = append(base, "assumed not to return: "+t[9:])
		case strings.HasPrefix(t, "devirtualized:"):
			base = append(base, "interface calls resolved to the single implementation in the repository: "+t[14:])
		}
	}
	return base
}

// ---------- other commands ----------

func cmdFunc(args []string) int {
	fs := flag.NewFlagSet("func", flag.ExitOnError)
	name := fs.String("f", "", "function relname (e.g. protocol.readHeader)")
	safety := fs.Bool("safety", false, "generate panic-freedom obligations")
	dump := fs.Bool("dump", false, "dump queries of failing obligations")
	timeout := fs.Int("t", 10, "solver timeout")
	cover := fs.Bool("cover", false, "check reachability of entry and returns (vacuity)")
	fs.Parse(args)
	prog := mustLoad()
	var fn *ssa.Function
	for _, f := range prog.funcByKey {
		if prog.relName(f) == *name {
			fn = f
		}
	}
	if fn == nil {
		fmt.Println("function not found:", *name)
		return 2
	}
	ctr := prog.contractFor(fn)
	res := verifyFunction(prog, fn, ctr, VerifyOpts{Safety: *safety, SafetyTags: []string{"C10"}, Liveness: true})
	for _, w := range res.Warnings {
		fmt.Println("warning:", w)
	}
	for _, u := range res.Unsupp {
		fmt.Println("ENGINE-LIMIT:", u)
	}
	solveAll(res.Obls, *timeout, false)
	bad := 0
	for _, o := range res.Obls {
		fmt.Printf("  %-8s %-7s %6.2fs [%s] %s\n", o.Result.Status, o.Result.Solver, o.Result.Secs, strings.Join(o.Tags, ","), o.Name)
		if d := os.Getenv("GOCV_DUMP_MATCH"); d != "" && strings.Contains(o.Name, d) {
			dd := filepath.Join(verifDir, ".work")
			if v := os.Getenv("GOCV_DUMP_DIR"); v != "" {
				dd = v
			}
			os.MkdirAll(dd, 0o755)
			p := filepath.Join(dd, sanitize(o.Name)+".smt2")
			os.WriteFile(p, []byte(o.Query()), 0o644)
			os.WriteFile(p+".pc", []byte(o.smt.Query(o.prefix, o.pc)), 0o644)
			os.WriteFile(p+".qf", []byte(o.QueryQF()), 0o644)
			fmt.Println("    query:", p)
		}
		if o.Result.Status != "unsat" {
			bad++
			fmt.Printf("    at %s\n", o.Pos)
			if *dump {
				p := filepath.Join(verifDir, ".work", sanitize(o.Name)+".smt2")
				os.WriteFile(p, []byte(o.Query()+"(get-model)\n"), 0o644)
				fmt.Println("    query:", p)
			}
		}
	}
	if *cover {
		vac := solveCovers(res.Covers, *timeout)
		for _, c := range res.Covers {
			fmt.Printf("  cover %-8s %s\n", c.Result.Status, c.Name)
		}
		if vac > 0 {
			fmt.Printf("VACUOUS: entry or all returns unreachable under the assumptions\n")
		}
	}
	fmt.Printf("%d obligations, %d not discharged; trusted: %v\n", len(res.Obls), bad, res.Trusted)
	if bad > 0 {
		return 1
	}
	return 0
}

func cmdList(args []string) int {
	prog := mustLoad()
	for _, k := range sortedKeys(prog.contracts.ByKey) {
		c := prog.contracts.ByKey[k]
		tags := map[string]bool{}
		for _, cl := range c.Clauses {
			for _, t := range cl.Tags {
				tags[t] = true
			}
		}
		found := "-"
		if c.Kind == "func" {
			if prog.funcByKey[c.Key] != nil {
				found = "ok"
			} else {
				found = "MISSING"
			}
		}
		fmt.Printf("%-8s %-8s %-70s %v\n", c.Kind, found, k, sortedKeys(tags))
	}
	return 0
}

// cmdLock regenerates obligations.lock: the clause-level obligations (ensures,
// invariants, call-site requires, frames) each claimed property must produce.
func cmdLock(args []string) int {
	prog := mustLoad()
	props := map[string]bool{}
	for _, c := range prog.contracts.ByKey {
		for _, cl := range c.Clauses {
			for _, t := range cl.Tags {
				props[t] = true
			}
		}
	}
	var out []string
	out = append(out, "# property obligation-name (clause-level obligations that must still be generated at least once: postconditions, invariants, site clauses, tagged callee preconditions)")
	for _, p := range sortedKeys(props) {
		names := map[string]bool{}
		for _, c := range functionsFor(prog, p) {
			fn := prog.funcByKey[c.Key]
			if fn == nil {
				continue
			}
			fr := verifyFunction(prog, fn, c, VerifyOpts{Safety: false, Liveness: p == "C20"})
			sel, _ := selectObligations(fr, p)
			for _, o := range sel {
				switch o.Kind {
				case "ensures", "inv.entry", "inv.preserve", "site", "call.requires":
					n := lockName(o.Name)
					if o.Kind == "call.requires" && p == "C10" {
						continue // panic-freedom preconditions follow the code; only semantic call requirements are pinned
					}
					if hasTag(o.Tags, p) {
						names[n] = true
					}
				}
			}
		}
		for _, n := range sortedKeys(names) {
			out = append(out, p+" "+n)
		}
	}
	os.WriteFile(filepath.Join(verifDir, "obligations.lock"), []byte(strings.Join(out, "\n")+"\n"), 0o644)
	// declared variables of every function under contract (lets checks follow pure renames)
	var ll []string
	lockedFns := map[string]bool{}
	for _, k := range sortedKeys(prog.contracts.ByKey) {
		c := prog.contracts.ByKey[k]
		if c.Kind != "func" {
			continue
		}
		if fn := prog.funcByKey[c.Key]; fn != nil {
			// the function and the functions enclosing it (closures refer to captured variables)
			for f := fn; f != nil; f = f.Parent() {
				k := prog.funcKey(f)
				if lockedFns[k] {
					continue
				}
				lockedFns[k] = true
				for _, d := range prog.declaredLocals(f) {
					ll = append(ll, k+"\t"+d.Name+"\t"+d.Type)
				}
			}
		}
	}
	os.WriteFile(filepath.Join(verifDir, "locals.lock"), []byte(strings.Join(ll, "\n")+"\n"), 0o644)
	// fields of the repository's struct types (lets checks follow pure field renames)
	var fl []string
	sf := prog.structFields()
	for _, k := range sortedKeys(sf) {
		for _, f := range sf[k] {
			fl = append(fl, k+"\t"+f.Name+"\t"+f.Type)
		}
	}
	os.WriteFile(filepath.Join(verifDir, "fields.lock"), []byte(strings.Join(fl, "\n")+"\n"), 0o644)
	fmt.Printf("wrote %d lock entries\n", len(out)-1)
	return 0
}

var sweepPkgs = []string{"/cmd/rdpgw/protocol", "/cmd/rdpgw/transport", "/cmd/rdpgw/security", "/cmd/rdpgw/web", "/cmd/rdpgw/kdcproxy", "/cmd/rdpgw/identity", "/cmd/rdpgw/config", "/cmd/auth/ntlm", "/cmd/auth/database", "/cmd/auth/config"}

// sweepFunctions lists every non-generated function (and closure) of the
// packages that handle client input.
func sweepFunctions(prog *Program) []*ssa.Function {
	var fns []*ssa.Function
	for k, fn := range prog.funcByKey {
		i := strings.Index(k, "|")
		if i < 0 || len(fn.Blocks) == 0 {
			continue
		}
		ok := false
		for _, sp := range sweepPkgs {
			if k[:i] == repoModule+sp {
				ok = true
			}
		}
		if !ok || fn.Synthetic != "" || fn.Name() == "init" {
			continue
		}
		if os.Getenv("GOCV_DEBUG_ENTRY") != "" {
			fmt.Fprintf(os.Stderr, "ENTRY %s contract=%v entry=%v\n", prog.relName(fn), prog.contractFor(fn) != nil, prog.isEntryPoint(fn))
		}
		if prog.contractFor(fn) == nil && !prog.isEntryPoint(fn) {
			// an unexported helper or local closure that is only ever called directly is
			// covered where it is inlined into its callers, with their actual arguments
			continue
		}
		if pos := fn.Pos(); pos.IsValid() {
			file := prog.fset.Position(pos).Filename
			if strings.HasSuffix(file, "_test.go") || strings.HasSuffix(file, ".pb.go") {
				continue
			}
		}
		fns = append(fns, fn)
	}
	sort.Slice(fns, func(i, j int) bool { return prog.relName(fns[i]) < prog.relName(fns[j]) })
	return fns
}

func cmdSweep(args []string) int {
	fs := flag.NewFlagSet("sweep", flag.ExitOnError)
	only := fs.String("pkg", "", "restrict to functions whose name has this prefix")
	fs.Parse(args)
	prog := mustLoad()
	var all []*Obligation
	for _, fn := range sweepFunctions(prog) {
		if *only != "" && !strings.HasPrefix(prog.relName(fn), *only) {
			continue
		}
		res := verifyFunction(prog, fn, prog.contractFor(fn), VerifyOpts{Safety: true, SafetyTags: []string{"C10"}})
		for _, u := range res.Unsupp {
			fmt.Printf("ENGINE-LIMIT %s: %s\n", prog.relName(fn), u)
		}
		for _, o := range res.Obls {
			if hasTag(o.Tags, "C10") {
				all = append(all, o)
			}
		}
	}
	solveAll(all, 10, false)
	bad := 0
	for _, o := range all {
		if o.Result.Status != "unsat" {
			bad++
			fmt.Printf("  %-8s %s   (%s)\n", o.Result.Status, o.Name, o.Pos)
		}
	}
	fmt.Printf("%d safety obligations, %d not discharged\n", len(all), bad)
	return 0
}

// solveCovers checks that entry and return points are reachable under the
// assumptions (a contradictory precondition or invariant would make every
// obligation pass). Only "unsat" counts as vacuous.
func solveCovers(cs []*Cover, timeoutS int) int {
	var wg sync.WaitGroup
	sem := make(chan struct{}, 12)
	for _, c := range cs {
		wg.Add(1)
		go func(c *Cover) {
			defer wg.Done()
			sem <- struct{}{}
			defer func() { <-sem }()
			r := Solve(c.smt.Query(c.prefix, c.pc), timeoutS, false, c.Name)
			c.Result = &r
			if c.before != "" && r.Status == "unsat" {
				// unreachable after the clause: vacuity only if the call site itself was reachable
				// (the query up to the assumption of the clause)
				rb := Solve(c.smt.Query(c.prefix-1, c.before), timeoutS, false, c.Name+".before")
				c.Poison = rb.Status == "sat"
			}
			if r.Status == "unsat" && os.Getenv("GOCV_DUMP_COVER") != "" {
				os.WriteFile(filepath.Join(verifDir, ".work", sanitize(c.Name)+".cover.smt2"), []byte(c.smt.Query(c.prefix, c.pc)), 0o644)
			}
		}(c)
	}
	wg.Wait()
	// vacuous: the entry of a function, or every one of its returns, is unreachable
	// under its assumptions (a single dead branch is ordinary dead code)
	type fnCov struct{ returns, deadReturns int; deadEntry bool }
	byFn := map[string]*fnCov{}
	for _, c := range cs {
		fn := c.Name
		if i := strings.Index(fn, "/cover."); i > 0 {
			fn = fn[:i]
		}
		fc := byFn[fn]
		if fc == nil {
			fc = &fnCov{}
			byFn[fn] = fc
		}
		if strings.Contains(c.Name, "/cover.entry") {
			fc.deadEntry = c.Result.Status == "unsat"
		} else if strings.Contains(c.Name, "/cover.return") {
			fc.returns++
			if c.Result.Status == "unsat" {
				fc.deadReturns++
			}
		}
	}
	vac := 0
	for _, c := range cs {
		if c.Poison {
			fmt.Printf("VACUOUS %s: the clause is false in every state that reaches this call; assumed after it, it would make the rest of the function hold vacuously\n", c.Name)
			vac++
		}
	}
	for _, fc := range byFn {
		if fc.deadEntry || (fc.returns > 0 && fc.deadReturns == fc.returns) {
			vac++
		}
	}
	return vac
}

// Functions left out of the panic-freedom sweep, with the reason.
var sweepExclusions = map[string]string{
	"protocol.(*ClientConfig).":                    "client side of the protocol (not reachable from client input to the gateway)",
	"protocol.(*Gateway).setSendReceiveBuffers":    "walks reflect.Value: outside the verified subset (bounded stand-in in the thorough tier)",
	"protocol.Disconnect":                          "administrative API, not reachable from client input",
	"protocol.wrapSyscallError":                    "only called from setSendReceiveBuffers",
	"config.ToCamel":                               "startup configuration only",
}

func inSweepPkgs(fn *ssa.Function) bool {
	if fn.Pkg == nil {
		return false
	}
	for _, sp := range sweepPkgs {
		if fn.Pkg.Pkg.Path() == repoModule+sp {
			return true
		}
	}
	return false
}

func sweepExcluded(prog *Program, fn *ssa.Function) bool {
	n := prog.relName(fn)
	for p := range sweepExclusions {
		if strings.HasPrefix(n, p) {
			return true
		}
	}
	return false
}

func sweepExcludedNames(prog *Program) []string {
	var out []string
	for _, k := range sortedKeys(sweepExclusions) {
		out = append(out, k+": "+sweepExclusions[k])
	}
	return out
}

func isTrusted(c *Contract) bool {
	for _, cl := range c.Clauses {
		if cl.Kind == "trusted" {
			return true
		}
	}
	return false
}

func kindCounts(obls []*Obligation) map[string]int {
	m := map[string]int{}
	for _, o := range obls {
		m[o.Kind]++
	}
	return m
}

func slowest(obls []*Obligation, n int) []map[string]any {
	var os []*Obligation
	for _, o := range obls {
		if o.Result != nil {
			os = append(os, o)
		}
	}
	sort.SliceStable(os, func(i, j int) bool { return os[i].Result.Secs > os[j].Result.Secs })
	var out []map[string]any
	for i := 0; i < len(os) && i < n; i++ {
		out = append(out, map[string]any{"obligation": os[i].Name, "secs": round3(os[i].Result.Secs), "solver": os[i].Result.Solver, "status": os[i].Result.Status})
	}
	return out
}
