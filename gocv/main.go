package main

import (
	"fmt"
	"golang.org/x/tools/go/packages"
	"golang.org/x/tools/go/ssa"
	"golang.org/x/tools/go/ssa/ssautil"
)

func main() {
	cfg := &packages.Config{Mode: packages.LoadAllSyntax, Dir: "/repo", BuildFlags: []string{"-tags=verif"}}
	pkgs, err := packages.Load(cfg, "./cmd/rdpgw/protocol")
	if err != nil {
		panic(err)
	}
	prog, _ := ssautil.AllPackages(pkgs, ssa.InstantiateGenerics)
	prog.Build()
	fmt.Println(len(pkgs), len(prog.AllPackages()))
}
