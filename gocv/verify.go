package main

import (
	"runtime/debug"
	"fmt"
	"os"
	"go/token"
	"go/printer"
	"bytes"
	"go/ast"
	"go/parser"
	"go/types"
	"strings"

	"golang.org/x/tools/go/ssa"
)

type VerifyOpts struct {
	Safety     bool
	SafetyTags []string
	Liveness   bool
}

type FuncResult struct {
	Fn       *ssa.Function
	Key      string
	Obls     []*Obligation
	Warnings []string
	Unsupp   []string
	Trusted  []string
	Inlined  []string
	Exec     *Exec
	Covers   []*Cover
}

var ghostProg *Program

func ghostType(name string) types.Type {
	if i := strings.LastIndex(name, "."); i > 0 && ghostProg != nil {
		ptr := strings.HasPrefix(name, "*")
		pkgName, tn := strings.TrimPrefix(name[:i], "*"), name[i+1:]
		for _, pk := range ghostProg.allPkgs {
			if pk.Name() == pkgName || pk.Path() == pkgName {
				if o, ok := pk.Scope().Lookup(tn).(*types.TypeName); ok {
					if ptr {
						return types.NewPointer(o.Type())
					}
					return o.Type()
				}
			}
		}
		return nil
	}
	switch name {
	case "bv16":
		return types.Typ[types.Uint16]
	case "bv32":
		return types.Typ[types.Uint32]
	case "str":
		return types.Typ[types.String]
	case "bytes":
		return bytesType
	case "fn":
		return types.NewSignatureType(nil, nil, nil, nil, nil, false)
	}
	return specType(name)
}

// verifyFunction generates all obligations of one function under its contract.
func verifyFunction(prog *Program, fn *ssa.Function, ctr *Contract, opts VerifyOpts) (res *FuncResult) {
	ghostProg = prog
	x := NewExec(prog)
	x.topFn = fn
	x.topCtr = ctr
	x.safety = opts.Safety
	x.safetyTag = opts.SafetyTags
	x.wantLiveness = opts.Liveness
	x.livenessTag = []string{"C20"}
	res = &FuncResult{Fn: fn, Key: prog.funcKey(fn), Exec: x}
	defer func() {
		if r := recover(); r != nil {
			x.unsupported("engine panic: %v\n%s", r, debug.Stack())
			res.Obls, res.Warnings, res.Unsupp = x.obls, x.warnings, x.unsupp
		}
	}()
	st := &State{pc: "true", heap: map[string]string{}, ghost: map[string]Val{}}
	st.alloc = x.smt.Fresh("alloc0", SRef)
	x.alloc0 = st.alloc
	x.smt.Assert(and(app("bvugt", st.alloc, "#x00000010"), app("bvult", st.alloc, "#x7fff0000")))
	for _, g := range prog.contracts.Ghosts {
		t := ghostType(g.Type)
		if t == nil {
			x.unsupported("ghost %s: unknown type %s", g.Name, g.Type)
			continue
		}
		st.ghost[g.Name] = x.freshVal(st, "g0."+g.Name, t)
	}
	fr := x.newFrame(fn, nil)
	fr.top = true
	fr.ctr = ctr
	x.topFrame = fr
	for _, p := range fn.Params {
		v := x.freshVal(st, "p."+p.Name(), p.Type())
		fr.vals[p] = v
		fr.params[p.Name()] = v
	}
	for _, fv := range fn.FreeVars {
		v := x.freshVal(st, "fv."+fv.Name(), fv.Type())
		fr.vals[fv] = v
		fr.params[fv.Name()] = v
	}
	if fn.Signature.Recv() != nil && len(fn.Params) > 0 {
		fr.params["self"] = fr.vals[fn.Params[0]]
	}
	x.aliasEnv(fn, fr.params) // parameters, receivers and captured variables renamed since the contracts were written
	if fn.Name() == "init" && fn.Synthetic != "" && fn.Pkg != nil {
		// a package initializer runs its body exactly once: verify that run (guard not yet set)
		g := "global." + shortPkg(fn.Pkg.Pkg.Path()) + ".init$guard"
		x.smt.Assert(not(x.heapRead(st, g, SBool, "#x00000001", "")))
	}
	fr.entry = st.clone()
	// implicit preconditions (checked at every in-repo call site of a contracted
	// function, see applyContract): non-nil receiver, request, writer, context
	for i, p := range fn.Params {
		for _, g := range x.implicitRequires(st, fn.Signature, i, len(fn.Params), fr.vals[p]) {
			x.smt.Assert(g)
		}
	}
	if ctr != nil {
		for _, c := range ctr.Clauses {
			if c.Kind == "requires" && !c.Spawn {
				g := x.evalSpecBool(fr, st, st, c.Expr, nil)
				x.smt.Assert(g)
			}
		}
	}
	fr.entry = st.clone()
	x.cover(st, x.prog.relName(fn)+"/cover.entry")
	x.execBody(fr, st)
	// panics the function lets escape (contract: maypanic): its `onpanic ensures` clauses and its
	// frame must hold in the states in which they escape
	if ctr != nil {
		for _, es := range x.escaped {
			if es == nil || es.dead {
				continue
			}
			for _, c := range ctr.Clauses {
				if c.Kind != "onpanic" {
					continue
				}
				lbl := c.Label
				if lbl == "" {
					lbl = fmt.Sprintf("%d", clauseOrdinal(ctr, c))
				}
				g := x.evalSpecBool(fr, es, fr.entry, c.Expr, nil)
				x.oblige(es, "ensures", x.siteName(fmt.Sprintf("%s/onpanic.%s", x.prog.relName(fn), lbl)), c.Tags, fn.Pos(), g)
			}
			x.checkFrame(fr, es, nil)
		}
	}
	// a site clause that applies to no call proves nothing: most likely its callee is misspelt
	if ctr != nil {
		for _, c := range ctr.Clauses {
			if c.Kind == "site" && !x.siteMatched[c] && !c.Optional {
				x.unsupported("site clause %q (%s) matches no call in %s", c.Label, c.Callee, prog.relName(fn))
			}
			if c.Kind == "invariant" && !x.siteMatched[c] {
				x.unsupported("loop %d invariant %q: %s has no such loop (or it is never reached)", c.Loop, c.Label, prog.relName(fn))
			}
		}
	}
	res.Covers = x.covers
	res.Obls, res.Warnings, res.Unsupp = x.obls, x.warnings, x.unsupp
	res.Trusted = sortedKeys(x.trusted)
	res.Inlined = sortedKeys(x.inlined)
	return res
}

func (x *Exec) checkEnsures(fr *Frame, st *State, rs []Val, ret *ssa.Return) {
	ctr := fr.ctr
	if ctr == nil {
		return
	}
	env := map[string]Val{}
	names := resultNames(nil, fr.fn.Signature)
	for i, n := range names {
		if i < len(rs) {
			env[n] = rs[i]
		}
	}
	if len(rs) == 1 {
		env["result"] = rs[0]
	}
	for i := range rs {
		if _, ok := env[fmt.Sprintf("result%d", i)]; !ok {
			env[fmt.Sprintf("result%d", i)] = rs[i] // positional names always work
		}
	}
	for _, c := range ctr.Clauses {
		if c.Kind == "ghostset" && !c.Spawn {
			full := map[string]Val{}
			for k, v := range fr.params {
				full[k] = v
			}
			for k, v := range env {
				full[k] = v
			}
			x.aliasEnv(fr.fn, full) // named results that were renamed since the contract was written
			var pkg *types.Package
			if fr.fn.Pkg != nil {
				pkg = fr.fn.Pkg.Pkg
			}
			x.applyGhostSet(st, fr.entry, c, pkg, full)
		}
	}
	for _, c := range ctr.Clauses {
		if c.Kind != "ensures" || c.Spawn {
			continue
		}
		lbl := c.Label
		if lbl == "" {
			lbl = fmt.Sprintf("%d", clauseOrdinal(ctr, c))
		}
		if os.Getenv("GOCV_SPLIT") != "" {
			// diagnosis: one obligation per top-level conjunct of the (consequent of the) clause
			for i, part := range splitConjuncts(c.Expr) {
				g := x.evalSpecBool(fr, st, fr.entry, part, env)
				name := x.siteName(fmt.Sprintf("%s/ensures.%s.part%d[%s]", x.prog.relName(fr.fn), lbl, i, part.Text))
				x.oblige(st, "ensures", name, c.Tags, retPos(fr, ret), g)
			}
			continue
		}
		g := x.evalSpecBool(fr, st, fr.entry, c.Expr, env)
		name := x.siteName(fmt.Sprintf("%s/ensures.%s", x.prog.relName(fr.fn), lbl))
		o := x.oblige(st, "ensures", name, c.Tags, retPos(fr, ret), g)
		if o != nil {
			o.Note = c.Text
			o.clause = c
			o.retGhost = map[string]Val{}
			for k, gv := range st.ghost {
				o.retGhost[k] = gv
			}
		}
	}
	x.checkFrame(fr, st, ret)
}

// checkFrame: every heap cell that existed at entry and is changed by the
// function must be named in an assigns clause. Targets are resolved to
// (region, object) pairs in the entry state, so the obligation is per object:
// forall r allocated at entry, r not an assigned object ==> region[r] unchanged.
func (x *Exec) checkFrame(fr *Frame, st *State, ret *ssa.Return) {
	ctr := fr.ctr
	hasFrame := false
	for _, c := range ctr.Clauses {
		if c.Kind == "assigns" || c.Kind == "ensures" || c.Kind == "ghostset" {
			hasFrame = true
		}
	}
	if !hasFrame {
		return
	}
	type allowed struct {
		prefix string
		base   string // "" = whole region
		index  string
	}
	var allow []allowed
	ghosts := map[string]bool{}
	var tags []string
	var pkg *types.Package
	if fr.fn.Pkg != nil {
		pkg = fr.fn.Pkg.Pkg
	} else if fr.fn.Parent() != nil && fr.fn.Parent().Pkg != nil {
		pkg = fr.fn.Parent().Pkg.Pkg
	}
	for _, c := range ctr.Clauses {
		if c.Spawn {
			continue
		}
		if c.Kind == "ghostset" {
			if i := strings.Index(c.Targets[0], "("); i > 0 {
				if n := strings.TrimSpace(c.Targets[0][:i]); n == "chanSent" || n == "chanRecvd" {
					allow = append(allow, allowed{prefix: "chan"})
				}
				if gm := x.prog.contracts.GhostMaps[strings.TrimSpace(c.Targets[0][:i])]; gm != nil {
					reg, _, _ := ghostMapRegion(gm)
					allow = append(allow, allowed{prefix: reg})
				}
			} else {
				ghosts[strings.TrimPrefix(c.Targets[0], "#")] = true
			}
			continue
		}
		if c.Kind != "assigns" {
			continue
		}
		tags = append(tags, c.Tags...)
		for _, tgt := range c.Targets {
			tgt = strings.TrimSpace(tgt)
			switch {
			case tgt == "*":
				return
			case strings.HasPrefix(tgt, "#"):
				ghosts[tgt[1:]] = true
			case strings.HasPrefix(tgt, "region(") && strings.Contains(tgt, ") at "):
				k := strings.Index(tgt, ") at ")
				e, err := parser.ParseExpr(ghostRe.ReplaceAllString(tgt[k+5:], "ghost__$1"))
				if err != nil {
					x.unsupported("assigns target %q: %v", tgt, err)
					return
				}
				sc := &specCtx{x: x, pkg: pkg, env: fr.params, st: fr.entry, old: fr.entry}
				ov := sc.expr(e, nil)
				base := ov.L[0]
				if isInterface(ov.T) {
					base = app("iref", ov.L[0])
				}
				allow = append(allow, allowed{prefix: x.prog.fixRegion(tgt[7:k]), base: base})
			case strings.HasPrefix(tgt, "region(") && strings.HasSuffix(tgt, ")"):
				allow = append(allow, allowed{prefix: x.prog.fixRegion(tgt[7 : len(tgt)-1])})
			case strings.HasPrefix(tgt, "pointees("):
				return
			default:
				inner, contents := tgt, false
				if strings.HasPrefix(tgt, "contents(") && strings.HasSuffix(tgt, ")") {
					inner, contents = tgt[9:len(tgt)-1], true
				}
				e, err := parser.ParseExpr(ghostRe.ReplaceAllString(inner, "ghost__$1"))
				if err != nil {
					x.unsupported("assigns target %q: %v", tgt, err)
					return
				}
				sc := &specCtx{x: x, pkg: pkg, env: fr.params, st: fr.entry, old: fr.entry}
				if contents {
					v := sc.expr(e, nil)
					if isInterface(v.T) && v.Dyn != nil {
						v = *v.Dyn
					}
					switch u := v.T.Underlying().(type) {
					case *types.Slice:
						allow = append(allow, allowed{prefix: "arr." + elemPrefix(u.Elem()), base: v.sRef()})
					case *types.Pointer:
						allow = append(allow, allowed{prefix: v.ptrPrefixOr(), base: v.L[0]})
					default:
						x.unsupported("assigns contents(%s): not a slice or pointer", inner)
						return
					}
					continue
				}
				p := sc.addr(e, nil)
				if _, ok := p.T.Underlying().(*types.Pointer); !ok {
					x.unsupported("assigns target %q cannot be resolved", tgt)
					return
				}
				allow = append(allow, allowed{prefix: p.ptrPrefixOr(), base: p.L[0], index: p.PtrIndex})
			}
		}
	}
	covers := func(k, p string) bool {
		return k == p || strings.HasPrefix(k, p+".") || strings.HasPrefix(k, p+"#") || strings.HasPrefix(k, p+":")
	}
	for _, k := range sortedKeys(st.heap) {
		cur := st.heap[k]
		if cur == "" || !st.dirty[k] {
			continue
		}
		if _, known := x.heapSort[k]; !known {
			continue
		}
		if strings.HasPrefix(k, "cell.") {
			continue // local variables
		}
		init := "H0." + sanitize(k)
		if cur == init {
			continue
		}
		whole := false
		var bases []string
		for _, a := range allow {
			if !covers(k, a.prefix) {
				continue
			}
			if a.base == "" {
				whole = true
			} else {
				bases = append(bases, a.base)
			}
		}
		if whole {
			continue
		}
		x.smt.Declare(init, x.arraySort(k))
		x.smt.fresh++
		q := fmt.Sprintf("q!r!%d", x.smt.fresh)
		var conds []string
		conds = append(conds, app("bvult", q, fr.entry.alloc))
		for _, b := range bases {
			conds = append(conds, not(eq(q, b)))
		}
		goal := fmt.Sprintf("(forall ((%s %s)) (=> %s (= (select %s %s) (select %s %s))))", q, SRef, and(conds...), cur, q, init, q)
		name := x.siteName(fmt.Sprintf("%s/frame.%s", x.prog.relName(fr.fn), k))
		x.oblige(st, "frame", name, tags, retPos(fr, ret), goal)
	}
	for g, v := range st.ghost {
		if ghosts[g] || strings.HasPrefix(g, "cacheFound") {
			// cacheFound*: observation record written by the go-cache model, not part of any frame
			continue
		}
		e := fr.entry.ghost[g]
		var es []string
		for i := range v.L {
			es = append(es, eq(v.L[i], e.L[i]))
		}
		if goal := and(es...); goal != "true" {
			name := x.siteName(fmt.Sprintf("%s/frame.#%s", x.prog.relName(fr.fn), g))
			x.oblige(st, "frame", name, tags, retPos(fr, ret), goal)
		}
	}
}

// ---------- loop modification sets ----------

// effectSet describes what a piece of code may write: whole regions, regions
// at a particular object (base value known at the loop head), ghost variables.
type refEffect struct {
	region string
	base   ssa.Value
}

type effectSet struct {
	whole  map[string]bool
	at     []refEffect
	ghosts map[string]bool
	all    bool
}

func newEffectSet() *effectSet {
	return &effectSet{whole: map[string]bool{}, ghosts: map[string]bool{}}
}

func staticRegion(v ssa.Value) string {
	switch t := v.(type) {
	case *ssa.FieldAddr:
		stt := t.X.Type().Underlying().(*types.Pointer).Elem().Underlying().(*types.Struct)
		return staticRegion(t.X) + "." + stt.Field(t.Field).Name()
	case *ssa.IndexAddr:
		switch u := t.X.Type().Underlying().(type) {
		case *types.Slice:
			return "arr." + elemPrefix(u.Elem())
		case *types.Pointer:
			if at, ok := u.Elem().Underlying().(*types.Array); ok {
				return "arr." + elemPrefix(at.Elem())
			}
		}
	case *ssa.Global:
		return "global." + shortPkg(t.Pkg.Pkg.Path()) + "." + t.Name()
	case *ssa.MakeInterface:
		return staticRegion(t.X)
	case *ssa.ChangeType:
		return staticRegion(t.X)
	}
	if p, ok := v.Type().Underlying().(*types.Pointer); ok {
		return typePrefix(p.Elem())
	}
	return ""
}

// addrBase finds the object an address is derived from.
func addrBase(v ssa.Value) ssa.Value {
	for {
		switch t := v.(type) {
		case *ssa.FieldAddr:
			v = t.X
		case *ssa.IndexAddr:
			v = t.X
		case *ssa.MakeInterface:
			v = t.X
		case *ssa.ChangeType:
			v = t.X
		case *ssa.Slice:
			v = t.X
		default:
			return v
		}
	}
}

type scanCtx struct {
	x      *Exec
	loop   map[*ssa.BasicBlock]bool // blocks of the loop in the depth-0 function (nil: whole function)
	pmap   map[ssa.Value]ssa.Value  // callee parameter -> depth-0 value (nil = unknown)
	depth  int
	seen   map[*ssa.Function]bool
	out    *effectSet
}

// classify resolves a base value to a depth-0 value that is defined outside
// the loop (returned), to "fresh inside" (nil,true) or to unknown (nil,false).
func (c *scanCtx) classify(v ssa.Value) (ssa.Value, bool) {
	for hop := 0; hop < 8; hop++ {
		v = addrBase(v)
		switch t := v.(type) {
		case *ssa.Parameter, *ssa.FreeVar:
			if c.depth == 0 {
				return v, false
			}
			if m, ok := c.pmap[v]; ok && m != nil {
				// continue classification at the outer level
				outer := *c
				outer.depth = 0
				outer.pmap = nil
				return outer.classify(m)
			}
			return nil, false
		case *ssa.Global:
			return v, false
		case *ssa.Alloc, *ssa.MakeSlice, *ssa.MakeMap, *ssa.MakeChan:
			if c.depth == 0 && c.loop != nil && !c.loop[t.(ssa.Instruction).Block()] {
				return v, false
			}
			if c.depth == 0 && c.loop == nil {
				return v, false
			}
			return nil, true // allocated inside the loop / callee: fresh
		case *ssa.Convert:
			if isSlice(t.Type()) {
				return nil, true
			}
			return nil, false
		case *ssa.Call:
			if f := t.Call.StaticCallee(); f != nil {
				switch f.String() {
				case "bytes.NewReader", "bytes.NewBuffer", "unicode/utf16.Decode", "(*bytes.Buffer).Bytes":
					if f.String() == "(*bytes.Buffer).Bytes" {
						v = t.Call.Args[0]
						continue
					}
					if c.depth == 0 && c.loop != nil && !c.loop[t.Block()] {
						return v, false
					}
					return nil, true
				}
			}
			if c.depth == 0 && c.loop != nil && !c.loop[t.Block()] {
				return v, false
			}
			return nil, false
		default:
			if instr, ok := v.(ssa.Instruction); ok && c.depth == 0 && c.loop != nil && !c.loop[instr.Block()] {
				return v, false
			}
			return nil, false
		}
	}
	return nil, false
}

func (c *scanCtx) addEffect(region string, base ssa.Value) {
	if region == "" {
		c.out.all = true
		return
	}
	if base == nil {
		c.out.whole[region] = true
		return
	}
	b, fresh := c.classify(base)
	if fresh {
		return
	}
	if b == nil {
		c.out.whole[region] = true
		return
	}
	c.out.at = append(c.out.at, refEffect{region, b})
}

func (c *scanCtx) argEffects(v ssa.Value) {
	if mi, ok := v.(*ssa.MakeInterface); ok {
		c.argEffects(mi.X)
		return
	}
	switch u := v.Type().Underlying().(type) {
	case *types.Pointer:
		c.addEffect(staticRegion(v), v)
		_ = u
	case *types.Slice:
		c.addEffect("arr."+elemPrefix(u.Elem()), v)
	}
}

type modelEff struct {
	region string
	arg    int // -1: whole region / fresh
}

var modelEffects = map[string][]modelEff{
	"bytes.NewReader":                 nil,
	"(*bytes.Reader).Seek":            {{"bytes.Reader", 0}},
	"(*bytes.Reader).Read":            {{"bytes.Reader", 0}, {"arr.bv8", 1}},
	"encoding/binary.Read":            {{"bytes.Reader", 0}, {"@arg", 2}},
	"encoding/binary.Write":           {{"bytes.Buffer", 0}, {"arr.bv8", 0}},
	"(*bytes.Buffer).Write":           {{"bytes.Buffer", 0}, {"arr.bv8", 0}},
	"(*bytes.Buffer).WriteByte":       {{"bytes.Buffer", 0}, {"arr.bv8", 0}},
	"(*bytes.Buffer).Reset":           {{"bytes.Buffer", 0}},
	"bytes.NewBuffer":                 nil,
	"unicode/utf16.Decode":            nil,
	"unicode/utf8.EncodeRune":         {{"arr.bv8", 0}},
	"context.WithValue":               nil,
	"(*net/http.Request).WithContext": nil,
	"(*github.com/patrickmn/go-cache.cache).Set":    {{"map:Str:gocache", 0}, {"gocache", 0}},
	"(*github.com/patrickmn/go-cache.cache).Delete": {{"map:Str:gocache", 0}},
	"(*github.com/patrickmn/go-cache.cache).Get":    nil,
}

func (x *Exec) loopModSet(fr *Frame, li *loopInfo) *effectSet {
	c := &scanCtx{x: x, loop: li.body, seen: map[*ssa.Function]bool{fr.fn: true}, out: newEffectSet()}
	var blocks []*ssa.BasicBlock
	for b := range li.body {
		blocks = append(blocks, b)
	}
	c.scan(fr.fn, blocks)
	return c.out
}

func (c *scanCtx) scan(fn *ssa.Function, blocks []*ssa.BasicBlock) {
	for _, b := range blocks {
		for _, instr := range b.Instrs {
			switch t := instr.(type) {
			case *ssa.Store:
				c.x.preRegister(staticRegion(t.Addr), t.Val.Type(), isIndexed(t.Addr))
				c.addEffect(staticRegion(t.Addr), t.Addr)
			case *ssa.MapUpdate:
				reg, _ := mapRegion(t.Map.Type().Underlying().(*types.Map))
				c.addEffect(reg, t.Map)
			case *ssa.MakeChan, *ssa.Send:
				c.out.whole["chan"] = true
			case *ssa.UnOp:
				if _, ok := t.X.Type().Underlying().(*types.Chan); ok {
					c.out.whole["chan"] = true
					c.out.ghosts["recvData"] = true // maintained by the channel model on every receive
				}
			case *ssa.Call:
				c.call(fn, &t.Call, false)
			case *ssa.Go:
				c.call(fn, &t.Call, true)
			case *ssa.Defer:
				c.call(fn, &t.Call, false)
			}
		}
	}
}

func (c *scanCtx) contractEffects(ctr *Contract, sig *types.Signature, isGo bool, args []ssa.Value) {
	for _, cl := range ctr.Clauses {
		if cl.Kind == "ghostset" && cl.Spawn == isGo {
			if i := strings.Index(cl.Targets[0], "("); i > 0 {
				if n := strings.TrimSpace(cl.Targets[0][:i]); n == "chanSent" || n == "chanRecvd" {
					c.out.whole["chan"] = true
				}
				if gm := c.x.prog.contracts.GhostMaps[strings.TrimSpace(cl.Targets[0][:i])]; gm != nil {
					reg, _, _ := ghostMapRegion(gm)
					c.out.whole[reg] = true
				}
			} else {
				c.out.ghosts[strings.TrimPrefix(cl.Targets[0], "#")] = true
			}
		}
		if cl.Kind != "assigns" || cl.Spawn != isGo {
			continue
		}
		for _, tgt := range cl.Targets {
			tgt = strings.TrimSpace(tgt)
			switch {
			case tgt == "*":
				c.out.all = true
			case strings.HasPrefix(tgt, "#"):
				c.out.ghosts[tgt[1:]] = true
			case strings.HasPrefix(tgt, "region(") && strings.Contains(tgt, ") at "):
				c.out.whole[c.x.prog.fixRegion(tgt[7:strings.Index(tgt, ") at ")])] = true
			case strings.HasPrefix(tgt, "region("):
				c.out.whole[c.x.prog.fixRegion(tgt[7:len(tgt)-1])] = true
			case strings.HasPrefix(tgt, "pointees("):
				c.out.all = true
			default:
				inner := tgt
				contents := false
				if strings.HasPrefix(tgt, "contents(") {
					inner = tgt[9 : len(tgt)-1]
					contents = true
				}
				e, err := parser.ParseExpr(inner)
				if err != nil {
					c.out.all = true
					continue
				}
				root, direct := rootIdent(e)
				var actual ssa.Value
				if idx := formalIndex(ctr, sig, root, len(args)); idx >= 0 && idx < len(args) {
					actual = args[idx]
				}
				if contents {
					t := c.x.staticTypeOfSpec(ctr, sig, e)
					if t == nil {
						c.out.all = true
						continue
					}
					var reg string
					if s, ok := t.Underlying().(*types.Slice); ok {
						reg = "arr." + elemPrefix(s.Elem())
					} else if p, ok := t.Underlying().(*types.Pointer); ok {
						reg = typePrefix(p.Elem())
					}
					if _, isIdent := e.(*ast.Ident); isIdent && actual != nil {
						c.addEffect(reg, actual)
					} else {
						c.addEffect(reg, nil)
					}
					continue
				}
				reg := c.x.staticRegionOfSpec(ctr, sig, e)
				if reg == "" {
					c.out.all = true
					continue
				}
				if tt := c.x.staticTypeOfSpec(ctr, sig, e); tt != nil {
					c.x.preRegister(reg, tt, false)
				}
				if direct && actual != nil {
					c.addEffect(reg, actual)
				} else {
					c.addEffect(reg, nil)
				}
			}
		}
	}
}

// rootIdent returns the root identifier of a selector chain and whether the
// chain is exactly root.field (so that the written object is the root itself).
func rootIdent(e ast.Expr) (string, bool) {
	depth := 0
	for {
		switch t := e.(type) {
		case *ast.ParenExpr:
			e = t.X
		case *ast.SelectorExpr:
			depth++
			e = t.X
		case *ast.StarExpr:
			e = t.X
		case *ast.Ident:
			return t.Name, depth == 1
		default:
			return "", false
		}
	}
}

func formalIndex(ctr *Contract, sig *types.Signature, name string, nargs int) int {
	off := 0
	if nargs == sig.Params().Len()+1 {
		off = 1
		if name == "self" || (sig.Recv() != nil && sig.Recv().Name() == name) {
			return 0
		}
	}
	for i := 0; i < sig.Params().Len(); i++ {
		n := sig.Params().At(i).Name()
		if i < len(ctr.Params) {
			n = ctr.Params[i]
		}
		if n == name {
			return i + off
		}
	}
	return -1
}

func (c *scanCtx) call(caller *ssa.Function, call *ssa.CallCommon, isGo bool) {
	args := call.Args
	if call.IsInvoke() {
		all := append([]ssa.Value{call.Value}, args...)
		if ctr := c.x.prog.lookupTypeContract("iface", call.Value.Type(), "."+call.Method.Name()); ctr != nil {
			c.contractEffects(ctr, call.Signature(), isGo, all)
			return
		}
		if _, ok := ifaceModels[qualifiedTypeName(call.Value.Type())+"."+call.Method.Name()]; ok {
			return
		}
		if impl := c.x.prog.singleImpl(call.Value.Type()); impl != nil {
			if f := c.x.prog.ssa.LookupMethod(impl, call.Method.Pkg(), call.Method.Name()); f != nil {
				c.static(f, all, isGo)
				return
			}
		}
		if mi, ok := call.Value.(*ssa.MakeInterface); ok {
			if f := c.x.prog.ssa.LookupMethod(mi.X.Type(), call.Method.Pkg(), call.Method.Name()); f != nil {
				c.static(f, append([]ssa.Value{mi.X}, args...), isGo)
				return
			}
		}
		for _, a := range args {
			c.argEffects(a)
		}
		return
	}
	switch v := call.Value.(type) {
	case *ssa.Builtin:
		switch v.Name() {
		case "append", "copy":
			if s, ok := args[0].Type().Underlying().(*types.Slice); ok {
				c.addEffect("arr."+elemPrefix(s.Elem()), args[0])
			}
		case "delete":
			reg, _ := mapRegion(args[0].Type().Underlying().(*types.Map))
			c.addEffect(reg, args[0])
		}
		return
	case *ssa.Function:
		c.static(v, args, isGo)
		return
	case *ssa.MakeClosure:
		c.static(v.Fn.(*ssa.Function), args, isGo)
		return
	}
	if ctr := c.x.prog.lookupTypeContract("functype", call.Value.Type(), ""); ctr != nil {
		c.contractEffects(ctr, call.Signature(), isGo, args)
		return
	}
	for _, af := range caller.AnonFuncs {
		if types.Identical(af.Signature, call.Signature()) {
			c.static(af, args, isGo)
		}
	}
	for _, a := range args {
		c.argEffects(a)
	}
}

func (c *scanCtx) static(f *ssa.Function, args []ssa.Value, isGo bool) {
	x := c.x
	if ctr := x.prog.contractFor(f); ctr != nil && x.useContract(ctr, isGo) {
		c.contractEffects(ctr, f.Signature, isGo, args)
		return
	}
	if effs, ok := modelEffects[f.String()]; ok {
		if strings.HasSuffix(f.String(), "go-cache.cache).Get") {
			// observation ghosts written by the go-cache model
			c.out.ghosts["cacheFound"], c.out.ghosts["cacheFoundKey"], c.out.ghosts["cacheFoundIn"] = true, true, true
		}
		for _, e := range effs {
			if e.arg < 0 || e.arg >= len(args) {
				c.out.whole[e.region] = true
				continue
			}
			a := args[e.arg]
			if e.region == "@arg" {
				c.argEffects(a)
			} else {
				c.addEffect(e.region, a)
			}
		}
		return
	}
	if _, ok := nativeModels[f.String()]; ok {
		return
	}
	if _, ok := externKind(f); ok {
		return
	}
	if isGo {
		return
	}
	if x.prog.inRepo(f) && len(f.Blocks) > 0 && !x.noInline {
		if c.seen[f] || c.depth > maxInlineDepth {
			c.out.all = true
			return
		}
		inner := *c
		inner.depth = c.depth + 1
		inner.pmap = map[ssa.Value]ssa.Value{}
		for i, p := range f.Params {
			if i < len(args) {
				a := args[i]
				if c.depth > 0 {
					// translate through the current mapping
					if pa, ok := addrBase(a).(*ssa.Parameter); ok {
						a = c.pmap[pa]
					} else {
						a = nil
					}
				}
				inner.pmap[p] = a
			}
		}
		c.seen[f] = true
		inner.scan(f, f.Blocks)
		delete(c.seen, f)
		return
	}
	for _, a := range args {
		c.argEffects(a)
	}
}

// implicitRequires lists the facts assumed about argument i of a function:
// pointer receivers, *http.Request, http.ResponseWriter and context.Context
// values are non-nil; a request has a URL.
func (x *Exec) implicitRequires(st *State, sig *types.Signature, i, nargs int, v Val) []string {
	var gs []string
	isRecv := sig.Recv() != nil && nargs == sig.Params().Len()+1 && i == 0
	if isRecv {
		if _, ok := v.T.Underlying().(*types.Pointer); ok {
			gs = append(gs, nonNilTerm(v))
		}
		return gs
	}
	switch qualifiedTypeName(v.T) {
	case "net/http.ResponseWriter", "context.Context":
		gs = append(gs, nonNilTerm(v))
	}
	if p, ok := v.T.(*types.Pointer); ok && qualifiedTypeName(p.Elem()) == "net/http.Request" {
		gs = append(gs, nonNilTerm(v))
		gs = append(gs, not(eq(x.heapRead(st, "http.Request.URL", SRef, v.L[0], ""), "#x00000000")))
	}
	return gs
}

// splitConjuncts splits A ==> (B && C) into A ==> B, A ==> C (diagnostics only).
func splitConjuncts(n *SpecNode) []*SpecNode {
	if n.Op == "impl" {
		var out []*SpecNode
		for _, p := range splitConjuncts(n.B) {
			out = append(out, &SpecNode{Op: "impl", A: n.A, B: p, Text: p.Text})
		}
		return out
	}
	if n.Op != "go" {
		return []*SpecNode{n}
	}
	var parts []ast.Expr
	var walk func(e ast.Expr)
	walk = func(e ast.Expr) {
		if b, ok := e.(*ast.BinaryExpr); ok && b.Op == token.LAND {
			walk(b.X)
			walk(b.Y)
			return
		}
		if p, ok := e.(*ast.ParenExpr); ok {
			if b, ok := p.X.(*ast.BinaryExpr); ok && b.Op == token.LAND {
				walk(b)
				return
			}
		}
		parts = append(parts, e)
	}
	walk(n.Go)
	var out []*SpecNode
	for _, p := range parts {
		var buf bytes.Buffer
		printer.Fprint(&buf, token.NewFileSet(), p)
		out = append(out, &SpecNode{Op: "go", Go: p, Subs: n.Subs, Text: buf.String()})
	}
	return out
}

// preRegister declares the heap regions that hold a value of type t at the
// given prefix, so that loop-head havoc and frame invariants can refer to
// regions the loop touches before their first use.
func (x *Exec) preRegister(prefix string, t types.Type, indexed bool) {
	if prefix == "" || t == nil {
		return
	}
	idx := ""
	if indexed {
		idx = SBV64
	}
	for _, l := range leavesOf(t) {
		if _, known := x.heapSort[prefix+l.Path]; !known {
			x.regHeap(prefix+l.Path, l.Sort, idx)
		}
	}
}

func isIndexed(addr ssa.Value) bool {
	for {
		switch t := addr.(type) {
		case *ssa.IndexAddr:
			return true
		case *ssa.FieldAddr:
			addr = t.X
		default:
			return false
		}
	}
}

func retPos(fr *Frame, ret *ssa.Return) token.Pos {
	if ret != nil {
		return ret.Pos()
	}
	return fr.fn.Pos()
}
