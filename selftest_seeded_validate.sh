#!/bin/sh
# Validates the seeded changes in a scratch worktree of /repo (outside /repo and /verif):
# the patch applies, the tree builds, the existing tests pass, the demonstration fails with
# the change and passes without it. Usage: selftest_seeded_validate.sh <dir with C*/patch.diff ...>
export GOFLAGS=-mod=mod GOPROXY=off GOSUMDB=off GOTOOLCHAIN=local
SRC=${1:-/verif/seeded}
WT=$(mktemp -d /tmp/seedval.XXXXXX)
git -C /repo worktree add -q --detach "$WT/wt" HEAD || exit 2
cd "$WT/wt"
for d in "$SRC"/C*; do
  id=$(basename "$d")
  pkgdir=$(python3 -c "import json;print(json.load(open('$d/meta.json')).get('demo_pkg_dir',''))")
  [ -z "$pkgdir" ] && { echo "$id: no demo_pkg_dir"; continue; }
  runpat=$(python3 -c "
import json,re
m=json.load(open('$d/meta.json')).get('demo_run_cmd','')
r=re.search(r\"-run[ =]+'?\\\"?([^ '\\\"]+)\", m)
print(r.group(1) if r else 'TestDemo')")
  if ! git apply --check "$d/patch.diff" 2>/dev/null; then echo "$id: PATCH-DOES-NOT-APPLY"; continue; fi
  git apply "$d/patch.diff"
  b=ok; go build ./cmd/rdpgw/... ./cmd/auth/ntlm/... >/dev/null 2>&1 || b=BUILD-FAIL
  t=ok; go test -vet=off -count=1 ./cmd/rdpgw/... ./cmd/auth/ntlm ./cmd/auth/database >/dev/null 2>&1 || t=TESTS-FAIL
  cp "$d/demo_test.go" "$pkgdir/zz_demo_${id}_test.go"
  w=fails; go test -vet=off -count=1 -timeout 300s -run "$runpat" "./$pkgdir" >/dev/null 2>&1 && w=PASSES-WITH-CHANGE
  git apply -R "$d/patch.diff"
  o=passes; go test -vet=off -count=1 -timeout 300s -run "$runpat" "./$pkgdir" >/dev/null 2>&1 || o=FAILS-WITHOUT-CHANGE
  rm -f "$pkgdir/zz_demo_${id}_test.go"
  echo "$id: build=$b tests=$t demo_with_change=$w demo_without_change=$o"
done
cd /; git -C /repo worktree remove --force "$WT/wt"; rm -rf "$WT"
