// Finding U3 -- demo test.
//
// Package directory: cmd/rdpgw/protocol   (file name e.g. u3_demo_test.go)
// Run with:
//   export GOFLAGS=-mod=mod GOPROXY=off GOSUMDB=off GOTOOLCHAIN=local
//   cd cmd/rdpgw/protocol && go test -count=1 -run 'TestU3' -v .
//
// Legacy transport (RDG_OUT_DATA / RDG_IN_DATA pair), the client side ends by
// the TCP connection of the OUT channel being closed.
//
// TestU3_OutChannelDropsWithChannelOpen
//   channel open, the host sends a little data every 50ms, the OUT connection
//   is closed by the client.  Required (C11): within a bounded time the gateway
//   closes the connection to the host and the other client-facing connection
//   (IN) of the tunnel.  Observed: nothing happens, for ever; every write of the
//   relay goroutine to the dead OUT connection fails and the error is dropped.
//
// TestU3_OutChannelDropsBeforeInChannel
//   only the OUT request was made (point of the exchange: before the
//   handshake), then the client closes it.  Required (C11): the gateway closes
//   its side of that connection.  Observed: the hijacked connection is never
//   closed by anything (file descriptor stays in CLOSE_WAIT for ever).
package protocol

import (
	"bufio"
	"encoding/binary"
	"fmt"
	"io"
	"net"
	"net/http"
	"net/http/httptest"
	"strings"
	"sync"
	"testing"
	"time"
	"unicode/utf16"

	"github.com/bolkedebruin/rdpgw/cmd/rdpgw/identity"
)

func u3Pkt(pt uint16, body []byte) []byte {
	b := make([]byte, 8+len(body))
	binary.LittleEndian.PutUint16(b[0:], pt)
	binary.LittleEndian.PutUint32(b[4:], uint32(8+len(body)))
	copy(b[8:], body)
	return b
}

func u3ChannelCreate(host string, port int) []byte {
	u := utf16.Encode([]rune(host + "\x00"))
	n := make([]byte, 2*len(u))
	for i, c := range u {
		binary.LittleEndian.PutUint16(n[2*i:], c)
	}
	b := []byte{1, 0, 0, 0, 3, 0, 0, 0}
	binary.LittleEndian.PutUint16(b[2:], uint16(port))
	binary.LittleEndian.PutUint16(b[6:], uint16(len(n)))
	return u3Pkt(0x8, append(b, n...))
}

// listener that remembers which accepted connections the server has closed
type u3Listener struct {
	net.Listener
	mu    sync.Mutex
	conns []*u3Conn
}
type u3Conn struct {
	net.Conn
	mu     sync.Mutex
	closed bool
}

func (c *u3Conn) Close() error {
	c.mu.Lock()
	c.closed = true
	c.mu.Unlock()
	return c.Conn.Close()
}
func (c *u3Conn) isClosed() bool { c.mu.Lock(); defer c.mu.Unlock(); return c.closed }
func (l *u3Listener) Accept() (net.Conn, error) {
	c, err := l.Listener.Accept()
	if err != nil {
		return nil, err
	}
	w := &u3Conn{Conn: c}
	l.mu.Lock()
	l.conns = append(l.conns, w)
	l.mu.Unlock()
	return w, nil
}
func (l *u3Listener) byRemote(addr string) *u3Conn {
	l.mu.Lock()
	defer l.mu.Unlock()
	for _, c := range l.conns {
		if c.RemoteAddr().String() == addr {
			return c
		}
	}
	return nil
}

func u3Gateway(t *testing.T) (*httptest.Server, *u3Listener) {
	gw := &Gateway{}
	srv := httptest.NewUnstartedServer(http.HandlerFunc(func(w http.ResponseWriter, r *http.Request) {
		id := identity.NewUser()
		id.SetAttribute(identity.AttrRemoteAddr, r.RemoteAddr)
		ip, _, _ := net.SplitHostPort(r.RemoteAddr)
		id.SetAttribute(identity.AttrClientIp, ip)
		gw.HandleGatewayProtocol(w, identity.AddToRequestCtx(id, r))
	}))
	l := &u3Listener{Listener: srv.Listener}
	srv.Listener = l
	srv.Start()
	return srv, l
}

// legacy client -----------------------------------------------------------

type u3Legacy struct {
	out, in net.Conn
	outR    *bufio.Reader
	inR     *bufio.Reader
}

func u3ReadHead(br *bufio.Reader) (string, error) {
	status, err := br.ReadString('\n')
	if err != nil {
		return "", err
	}
	for {
		l, err := br.ReadString('\n')
		if err != nil {
			return "", err
		}
		if l == "\r\n" {
			return status, nil
		}
	}
}

func u3OpenOut(addr, connId string) (net.Conn, *bufio.Reader, error) {
	c, err := net.Dial("tcp", addr)
	if err != nil {
		return nil, nil, err
	}
	fmt.Fprintf(c, "RDG_OUT_DATA /remoteDesktopGateway/ HTTP/1.1\r\nHost: %s\r\nRdg-Connection-Id: %s\r\n\r\n", addr, connId)
	br := bufio.NewReader(c)
	c.SetReadDeadline(time.Now().Add(5 * time.Second))
	st, err := u3ReadHead(br)
	if err != nil || !strings.Contains(st, "200") {
		return nil, nil, fmt.Errorf("OUT channel not accepted: %q %v", st, err)
	}
	if _, err := io.ReadFull(br, make([]byte, 10)); err != nil { // the seed bytes
		return nil, nil, err
	}
	c.SetReadDeadline(time.Time{})
	return c, br, nil
}

func u3OpenLegacy(addr, connId string) (*u3Legacy, error) {
	out, outR, err := u3OpenOut(addr, connId)
	if err != nil {
		return nil, err
	}
	in, err := net.Dial("tcp", addr)
	if err != nil {
		return nil, err
	}
	fmt.Fprintf(in, "RDG_IN_DATA /remoteDesktopGateway/ HTTP/1.1\r\nHost: %s\r\nRdg-Connection-Id: %s\r\nTransfer-Encoding: chunked\r\n\r\n", addr, connId)
	inR := bufio.NewReader(in)
	in.SetReadDeadline(time.Now().Add(5 * time.Second))
	st, err := u3ReadHead(inR)
	if err != nil || !strings.Contains(st, "200") {
		return nil, fmt.Errorf("IN channel not accepted: %q %v", st, err)
	}
	in.SetReadDeadline(time.Time{})
	// the bytes the gateway drains before it starts to read packets
	in.Write(make([]byte, 100))
	time.Sleep(200 * time.Millisecond)
	return &u3Legacy{out: out, in: in, outR: outR, inR: inR}, nil
}

func (l *u3Legacy) send(p []byte) error {
	_, err := fmt.Fprintf(l.in, "%x\r\n%s\r\n", len(p), p)
	return err
}

func (l *u3Legacy) recv() (uint16, []byte, error) {
	l.out.SetReadDeadline(time.Now().Add(5 * time.Second))
	defer l.out.SetReadDeadline(time.Time{})
	h := make([]byte, 8)
	if _, err := io.ReadFull(l.outR, h); err != nil {
		return 0, nil, err
	}
	n := binary.LittleEndian.Uint32(h[4:])
	if n < 8 || n > 1<<20 {
		return 0, nil, fmt.Errorf("bad length %d", n)
	}
	b := make([]byte, n-8)
	_, err := io.ReadFull(l.outR, b)
	return binary.LittleEndian.Uint16(h), b, err
}

func (l *u3Legacy) openChannel(host string, port int) error {
	for _, req := range [][]byte{
		u3Pkt(0x1, []byte{1, 0, 0, 0, 0, 0}),
		u3Pkt(0x4, []byte{0x3f, 0, 0, 0, 0, 0, 0, 0}),
		u3Pkt(0x6, []byte{2, 0, 'c', 0}),
		u3ChannelCreate(host, port),
	} {
		if err := l.send(req); err != nil {
			return err
		}
		pt, body, err := l.recv()
		if err != nil {
			return fmt.Errorf("after request type %#x: %v", req[0], err)
		}
		off := 0
		if pt == 0x5 {
			off = 2
		}
		if st := binary.LittleEndian.Uint32(body[off:]); st != 0 {
			return fmt.Errorf("response %#x status %#x", pt, st)
		}
	}
	return nil
}

// -------------------------------------------------------------------------

func TestU3_OutChannelDropsWithChannelOpen(t *testing.T) {
	ln, err := net.Listen("tcp", "127.0.0.1:0")
	if err != nil {
		t.Fatal(err)
	}
	defer ln.Close()
	hostSawClose := make(chan struct{})
	go func() {
		c, err := ln.Accept()
		if err != nil {
			return
		}
		defer c.Close()
		go func() {
			io.Copy(io.Discard, c)
			close(hostSawClose)
		}()
		for { // host -> client traffic: a few bytes every 50ms
			if _, err := c.Write([]byte("screen update")); err != nil {
				return
			}
			time.Sleep(50 * time.Millisecond)
		}
	}()

	srv, _ := u3Gateway(t)
	defer srv.Close()

	cl, err := u3OpenLegacy(srv.Listener.Addr().String(), "{11111111-aaaa-bbbb-cccc-000000000001}")
	if err != nil {
		t.Fatal(err)
	}
	defer cl.in.Close()
	if err := cl.openChannel("127.0.0.1", ln.Addr().(*net.TCPAddr).Port); err != nil {
		t.Fatal(err)
	}
	if err := cl.send(u3Pkt(0xA, []byte{5, 0, 'h', 'e', 'l', 'l', 'o'})); err != nil {
		t.Fatal(err)
	}
	if pt, _, err := cl.recv(); err != nil || pt != 0xA {
		t.Fatalf("no data from the host: %v", err)
	}

	// the client's OUT connection goes away (TCP close)
	cl.out.Close()

	inClosed := make(chan struct{})
	go func() {
		io.Copy(io.Discard, cl.inR)
		close(inClosed)
	}()

	deadline := time.After(6 * time.Second)
	select {
	case <-hostSawClose:
	case <-deadline:
		t.Errorf("C11: 6s after the legacy OUT connection was closed the gateway still holds the connection to the remote desktop host open (and keeps relaying into the dead connection)")
	}
	select {
	case <-inClosed:
	case <-time.After(time.Second):
		t.Errorf("C11: the gateway did not close the IN connection of the tunnel whose OUT connection is gone")
	}

	// contrast: the IN side ending does release everything
	cl.in.Close()
	select {
	case <-hostSawClose:
		t.Logf("(after the IN connection was closed as well the host connection was released)")
	case <-time.After(5 * time.Second):
		t.Errorf("host connection not released even after the IN connection was closed")
	}
}

func TestU3_OutChannelDropsBeforeInChannel(t *testing.T) {
	srv, l := u3Gateway(t)
	defer srv.Close()

	out, _, err := u3OpenOut(srv.Listener.Addr().String(), "{11111111-aaaa-bbbb-cccc-000000000002}")
	if err != nil {
		t.Fatal(err)
	}
	local := out.LocalAddr().String()
	out.Close() // the client goes away before it ever opened the IN channel

	gwSide := l.byRemote(local)
	if gwSide == nil {
		t.Fatal("gateway side of the OUT connection not found")
	}
	for i := 0; i < 60; i++ {
		if gwSide.isClosed() {
			return
		}
		time.Sleep(100 * time.Millisecond)
	}
	t.Errorf("C11: 6s after the client closed its only (OUT) connection the gateway has not closed its side of it; no code path ever does (the tunnel sits in the connection-id cache, and expiry from the cache does not close it either)")
}
