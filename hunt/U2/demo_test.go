// Finding U2 -- demo test.
//
// Package directory: cmd/rdpgw/protocol   (file name e.g. u2_demo_test.go)
// Run with:
//   export GOFLAGS=-mod=mod GOPROXY=off GOSUMDB=off GOTOOLCHAIN=local
//   cd cmd/rdpgw/protocol && go test -count=1 -run 'TestU2' -v .
//
// 32 clients open and end websocket tunnels (distinct connection ids) at the
// same time while one further "victim" tunnel has a channel open and only
// exchanges keep-alive traffic.  Required (C07, C10): tunnels do not affect each
// other and the gateway keeps serving.  Observed: the gateway process dies with
// "fatal error: concurrent map writes" (RegisterTunnel / RemoveTunnel write the
// package level map protocol.Connections without any lock), which cuts the
// victim tunnel and every other tunnel.
package protocol

import (
	"bufio"
	"crypto/rand"
	"encoding/base64"
	"encoding/binary"
	"fmt"
	"io"
	"log"
	"net"
	"net/http"
	"net/http/httptest"
	"os"
	"os/exec"
	"strings"
	"sync"
	"testing"
	"time"
	"unicode/utf16"

	"github.com/bolkedebruin/rdpgw/cmd/rdpgw/identity"
)

func u2Pkt(pt uint16, body []byte) []byte {
	b := make([]byte, 8+len(body))
	binary.LittleEndian.PutUint16(b[0:], pt)
	binary.LittleEndian.PutUint32(b[4:], uint32(8+len(body)))
	copy(b[8:], body)
	return b
}

func u2UTF16(s string) []byte {
	u := utf16.Encode([]rune(s))
	b := make([]byte, 2*len(u))
	for i, c := range u {
		binary.LittleEndian.PutUint16(b[2*i:], c)
	}
	return b
}

func u2ChannelCreate(host string, port int) []byte {
	n := u2UTF16(host + "\x00")
	b := []byte{1, 0, 0, 0, 3, 0, 0, 0}
	binary.LittleEndian.PutUint16(b[2:], uint16(port))
	binary.LittleEndian.PutUint16(b[6:], uint16(len(n)))
	return u2Pkt(0x8, append(b, n...))
}

type u2WS struct {
	c  net.Conn
	br *bufio.Reader
}

func u2DialWS(addr string) (*u2WS, error) {
	c, err := net.Dial("tcp", addr)
	if err != nil {
		return nil, err
	}
	key := make([]byte, 16)
	rand.Read(key)
	fmt.Fprintf(c, "RDG_OUT_DATA /remoteDesktopGateway/ HTTP/1.1\r\nHost: %s\r\n"+
		"Connection: Upgrade\r\nUpgrade: websocket\r\nSec-WebSocket-Version: 13\r\n"+
		"Sec-WebSocket-Key: %s\r\nRdg-Connection-Id: {%x}\r\n\r\n",
		addr, base64.StdEncoding.EncodeToString(key), key)
	br := bufio.NewReader(c)
	line, err := br.ReadString('\n')
	if err != nil {
		c.Close()
		return nil, err
	}
	if !strings.Contains(line, "101") {
		c.Close()
		return nil, fmt.Errorf("no upgrade: %q", line)
	}
	for {
		l, err := br.ReadString('\n')
		if err != nil {
			c.Close()
			return nil, err
		}
		if l == "\r\n" {
			break
		}
	}
	return &u2WS{c: c, br: br}, nil
}

func (w *u2WS) send(p []byte) error {
	hdr := []byte{0x82}
	if len(p) < 126 {
		hdr = append(hdr, 0x80|byte(len(p)))
	} else {
		hdr = append(hdr, 0x80|126, byte(len(p)>>8), byte(len(p)))
	}
	mask := []byte{1, 2, 3, 4}
	hdr = append(hdr, mask...)
	m := make([]byte, len(p))
	for i := range p {
		m[i] = p[i] ^ mask[i%4]
	}
	_, err := w.c.Write(append(hdr, m...))
	return err
}

func (w *u2WS) recv() ([]byte, error) {
	h := make([]byte, 2)
	if _, err := io.ReadFull(w.br, h); err != nil {
		return nil, err
	}
	n := int(h[1] & 0x7f)
	if n == 126 {
		b := make([]byte, 2)
		if _, err := io.ReadFull(w.br, b); err != nil {
			return nil, err
		}
		n = int(binary.BigEndian.Uint16(b))
	}
	p := make([]byte, n)
	_, err := io.ReadFull(w.br, p)
	return p, err
}

func (w *u2WS) step(req []byte) error {
	if err := w.send(req); err != nil {
		return err
	}
	w.c.SetReadDeadline(time.Now().Add(5 * time.Second))
	defer w.c.SetReadDeadline(time.Time{})
	_, err := w.recv()
	return err
}

func TestU2_HelperGatewayProcess(t *testing.T) {
	if os.Getenv("U2_GATEWAY_CHILD") != "1" {
		t.Skip("helper")
	}
	log.SetOutput(io.Discard)
	gw := &Gateway{}
	srv := httptest.NewServer(http.HandlerFunc(func(w http.ResponseWriter, r *http.Request) {
		id := identity.NewUser()
		id.SetAttribute(identity.AttrRemoteAddr, r.RemoteAddr)
		ip, _, _ := net.SplitHostPort(r.RemoteAddr)
		id.SetAttribute(identity.AttrClientIp, ip)
		gw.HandleGatewayProtocol(w, identity.AddToRequestCtx(id, r))
	}))
	fmt.Printf("ADDR %s\n", srv.Listener.Addr().String())
	select {}
}

type u2Buf struct {
	mu sync.Mutex
	b  strings.Builder
}

func (s *u2Buf) Write(p []byte) (int, error) {
	s.mu.Lock()
	defer s.mu.Unlock()
	return s.b.Write(p)
}
func (s *u2Buf) Head(n int) string {
	s.mu.Lock()
	defer s.mu.Unlock()
	l := strings.Split(s.b.String(), "\n")
	if len(l) > n {
		l = l[:n]
	}
	return strings.Join(l, "\n")
}

func TestU2_ConcurrentTunnelSetupAndTeardown(t *testing.T) {
	cmd := exec.Command(os.Args[0], "-test.run=TestU2_HelperGatewayProcess$")
	cmd.Env = append(os.Environ(), "U2_GATEWAY_CHILD=1")
	var stderr u2Buf
	cmd.Stderr = &stderr
	out, err := cmd.StdoutPipe()
	if err != nil {
		t.Fatal(err)
	}
	if err := cmd.Start(); err != nil {
		t.Fatal(err)
	}
	br := bufio.NewReader(out)
	line, err := br.ReadString('\n')
	if err != nil || !strings.HasPrefix(line, "ADDR ") {
		t.Fatalf("child did not start: %q %v", line, err)
	}
	exited := make(chan error, 1)
	go func() { io.Copy(io.Discard, br); exited <- cmd.Wait() }()
	defer cmd.Process.Kill()
	gwAddr := strings.TrimSpace(strings.TrimPrefix(line, "ADDR "))

	// remote desktop host of the victim tunnel: stays silent, keeps the connection
	ln, err := net.Listen("tcp", "127.0.0.1:0")
	if err != nil {
		t.Fatal(err)
	}
	defer ln.Close()
	go func() {
		for {
			c, err := ln.Accept()
			if err != nil {
				return
			}
			go io.Copy(io.Discard, c)
		}
	}()

	// the victim: a tunnel with an open channel
	victim, err := u2DialWS(gwAddr)
	if err != nil {
		t.Fatal(err)
	}
	defer victim.c.Close()
	for _, req := range [][]byte{
		u2Pkt(0x1, []byte{1, 0, 0, 0, 0, 0}),
		u2Pkt(0x4, []byte{0x3f, 0, 0, 0, 0, 0, 0, 0}),
		u2Pkt(0x6, []byte{2, 0, 'c', 0}),
		u2ChannelCreate("127.0.0.1", ln.Addr().(*net.TCPAddr).Port),
	} {
		if err := victim.step(req); err != nil {
			t.Fatalf("victim tunnel setup: %v", err)
		}
	}
	victimCut := make(chan error, 1)
	go func() {
		_, err := victim.recv() // nothing is expected: the host is silent
		victimCut <- err
	}()

	// 32 other clients set up and tear down tunnels of their own for a few seconds
	stop := time.Now().Add(8 * time.Second)
	var wg sync.WaitGroup
	for i := 0; i < 32; i++ {
		wg.Add(1)
		go func() {
			defer wg.Done()
			for time.Now().Before(stop) {
				ws, err := u2DialWS(gwAddr)
				if err != nil {
					return
				}
				ws.step(u2Pkt(0x1, []byte{1, 0, 0, 0, 0, 0}))
				ws.c.Close()
			}
		}()
	}
	done := make(chan struct{})
	go func() { wg.Wait(); close(done) }()

	select {
	case err := <-exited:
		cut := "victim tunnel still open?!"
		select {
		case verr := <-victimCut:
			cut = fmt.Sprintf("the victim tunnel was cut (%v)", verr)
		case <-time.After(time.Second):
		}
		t.Fatalf("C07/C10: the gateway process died (%v) while other tunnels were set up and torn down; %s; stderr of the gateway:\n%s",
			err, cut, stderr.Head(12))
	case verr := <-victimCut:
		select {
		case err := <-exited:
			t.Fatalf("C07/C10: the gateway process died (%v) while other tunnels were set up and torn down; the victim tunnel was cut (%v); stderr of the gateway:\n%s",
				err, verr, stderr.Head(12))
		case <-time.After(3 * time.Second):
			t.Fatalf("victim tunnel ended: %v", verr)
		}
	case <-done:
	}
}
