// Finding U4 -- demo test.
//
// Package directory: cmd/rdpgw/protocol   (file name e.g. u4_demo_test.go)
// Run with:
//   export GOFLAGS=-mod=mod GOPROXY=off GOSUMDB=off GOTOOLCHAIN=local
//   cd cmd/rdpgw/protocol && go test -count=1 -run 'TestU4' -v .
//
// Legacy transport, channel open.  The client sends its last packet(s) and the
// terminating zero-length chunk of the chunked RDG_IN_DATA body in one socket
// write (an orderly end of the HTTP request body).
//
// Required (C06): every declared payload of the client's data packets reaches
// the host, nothing dropped.  Observed: the packets that share a read with the
// terminating chunk are thrown away -- the final DATA payload never reaches the
// host, and a final CLOSE_CHANNEL is never answered.
package protocol

import (
	"bufio"
	"bytes"
	"encoding/binary"
	"fmt"
	"io"
	"net"
	"net/http"
	"net/http/httptest"
	"strings"
	"sync"
	"testing"
	"time"
	"unicode/utf16"

	"github.com/bolkedebruin/rdpgw/cmd/rdpgw/identity"
)

func u4Pkt(pt uint16, body []byte) []byte {
	b := make([]byte, 8+len(body))
	binary.LittleEndian.PutUint16(b[0:], pt)
	binary.LittleEndian.PutUint32(b[4:], uint32(8+len(body)))
	copy(b[8:], body)
	return b
}

func u4ChannelCreate(host string, port int) []byte {
	u := utf16.Encode([]rune(host + "\x00"))
	n := make([]byte, 2*len(u))
	for i, c := range u {
		binary.LittleEndian.PutUint16(n[2*i:], c)
	}
	b := []byte{1, 0, 0, 0, 3, 0, 0, 0}
	binary.LittleEndian.PutUint16(b[2:], uint16(port))
	binary.LittleEndian.PutUint16(b[6:], uint16(len(n)))
	return u4Pkt(0x8, append(b, n...))
}

// listener that remembers which accepted connections the server has closed
type u4Listener struct {
	net.Listener
	mu    sync.Mutex
	conns []*u4Conn
}
type u4Conn struct {
	net.Conn
	mu     sync.Mutex
	closed bool
}

func (c *u4Conn) Close() error {
	c.mu.Lock()
	c.closed = true
	c.mu.Unlock()
	return c.Conn.Close()
}
func (c *u4Conn) isClosed() bool { c.mu.Lock(); defer c.mu.Unlock(); return c.closed }
func (l *u4Listener) Accept() (net.Conn, error) {
	c, err := l.Listener.Accept()
	if err != nil {
		return nil, err
	}
	w := &u4Conn{Conn: c}
	l.mu.Lock()
	l.conns = append(l.conns, w)
	l.mu.Unlock()
	return w, nil
}
func (l *u4Listener) byRemote(addr string) *u4Conn {
	l.mu.Lock()
	defer l.mu.Unlock()
	for _, c := range l.conns {
		if c.RemoteAddr().String() == addr {
			return c
		}
	}
	return nil
}

func u4Gateway(t *testing.T) (*httptest.Server, *u4Listener) {
	gw := &Gateway{}
	srv := httptest.NewUnstartedServer(http.HandlerFunc(func(w http.ResponseWriter, r *http.Request) {
		id := identity.NewUser()
		id.SetAttribute(identity.AttrRemoteAddr, r.RemoteAddr)
		ip, _, _ := net.SplitHostPort(r.RemoteAddr)
		id.SetAttribute(identity.AttrClientIp, ip)
		gw.HandleGatewayProtocol(w, identity.AddToRequestCtx(id, r))
	}))
	l := &u4Listener{Listener: srv.Listener}
	srv.Listener = l
	srv.Start()
	return srv, l
}

// legacy client -----------------------------------------------------------

type u4Legacy struct {
	out, in net.Conn
	outR    *bufio.Reader
	inR     *bufio.Reader
}

func u4ReadHead(br *bufio.Reader) (string, error) {
	status, err := br.ReadString('\n')
	if err != nil {
		return "", err
	}
	for {
		l, err := br.ReadString('\n')
		if err != nil {
			return "", err
		}
		if l == "\r\n" {
			return status, nil
		}
	}
}

func u4OpenOut(addr, connId string) (net.Conn, *bufio.Reader, error) {
	c, err := net.Dial("tcp", addr)
	if err != nil {
		return nil, nil, err
	}
	fmt.Fprintf(c, "RDG_OUT_DATA /remoteDesktopGateway/ HTTP/1.1\r\nHost: %s\r\nRdg-Connection-Id: %s\r\n\r\n", addr, connId)
	br := bufio.NewReader(c)
	c.SetReadDeadline(time.Now().Add(5 * time.Second))
	st, err := u4ReadHead(br)
	if err != nil || !strings.Contains(st, "200") {
		return nil, nil, fmt.Errorf("OUT channel not accepted: %q %v", st, err)
	}
	if _, err := io.ReadFull(br, make([]byte, 10)); err != nil { // the seed bytes
		return nil, nil, err
	}
	c.SetReadDeadline(time.Time{})
	return c, br, nil
}

func u4OpenLegacy(addr, connId string) (*u4Legacy, error) {
	out, outR, err := u4OpenOut(addr, connId)
	if err != nil {
		return nil, err
	}
	in, err := net.Dial("tcp", addr)
	if err != nil {
		return nil, err
	}
	fmt.Fprintf(in, "RDG_IN_DATA /remoteDesktopGateway/ HTTP/1.1\r\nHost: %s\r\nRdg-Connection-Id: %s\r\nTransfer-Encoding: chunked\r\n\r\n", addr, connId)
	inR := bufio.NewReader(in)
	in.SetReadDeadline(time.Now().Add(5 * time.Second))
	st, err := u4ReadHead(inR)
	if err != nil || !strings.Contains(st, "200") {
		return nil, fmt.Errorf("IN channel not accepted: %q %v", st, err)
	}
	in.SetReadDeadline(time.Time{})
	// the bytes the gateway drains before it starts to read packets
	in.Write(make([]byte, 100))
	time.Sleep(200 * time.Millisecond)
	return &u4Legacy{out: out, in: in, outR: outR, inR: inR}, nil
}

func (l *u4Legacy) send(p []byte) error {
	_, err := fmt.Fprintf(l.in, "%x\r\n%s\r\n", len(p), p)
	return err
}

func (l *u4Legacy) recv() (uint16, []byte, error) {
	l.out.SetReadDeadline(time.Now().Add(5 * time.Second))
	defer l.out.SetReadDeadline(time.Time{})
	h := make([]byte, 8)
	if _, err := io.ReadFull(l.outR, h); err != nil {
		return 0, nil, err
	}
	n := binary.LittleEndian.Uint32(h[4:])
	if n < 8 || n > 1<<20 {
		return 0, nil, fmt.Errorf("bad length %d", n)
	}
	b := make([]byte, n-8)
	_, err := io.ReadFull(l.outR, b)
	return binary.LittleEndian.Uint16(h), b, err
}

func (l *u4Legacy) openChannel(host string, port int) error {
	for _, req := range [][]byte{
		u4Pkt(0x1, []byte{1, 0, 0, 0, 0, 0}),
		u4Pkt(0x4, []byte{0x3f, 0, 0, 0, 0, 0, 0, 0}),
		u4Pkt(0x6, []byte{2, 0, 'c', 0}),
		u4ChannelCreate(host, port),
	} {
		if err := l.send(req); err != nil {
			return err
		}
		pt, body, err := l.recv()
		if err != nil {
			return fmt.Errorf("after request type %#x: %v", req[0], err)
		}
		off := 0
		if pt == 0x5 {
			off = 2
		}
		if st := binary.LittleEndian.Uint32(body[off:]); st != 0 {
			return fmt.Errorf("response %#x status %#x", pt, st)
		}
	}
	return nil
}


// -------------------------------------------------------------------------

func u4Chunk(p []byte) []byte {
	var w bytes.Buffer
	fmt.Fprintf(&w, "%x\r\n%s\r\n", len(p), p)
	return w.Bytes()
}

func u4Data(s string) []byte {
	b := []byte{byte(len(s)), byte(len(s) >> 8)}
	return u4Pkt(0xA, append(b, s...))
}

func u4Setup(t *testing.T) (*u4Legacy, chan []byte, func()) {
	ln, err := net.Listen("tcp", "127.0.0.1:0")
	if err != nil {
		t.Fatal(err)
	}
	got := make(chan []byte, 1)
	go func() {
		c, err := ln.Accept()
		if err != nil {
			return
		}
		b, _ := io.ReadAll(c) // everything the host receives until the gateway hangs up
		c.Close()
		got <- b
	}()
	srv, _ := u4Gateway(t)
	cl, err := u4OpenLegacy(srv.Listener.Addr().String(), fmt.Sprintf("{44444444-0000-0000-0000-%012d}", time.Now().UnixNano()%1e12))
	if err != nil {
		t.Fatal(err)
	}
	if err := cl.openChannel("127.0.0.1", ln.Addr().(*net.TCPAddr).Port); err != nil {
		t.Fatal(err)
	}
	return cl, got, func() { cl.in.Close(); cl.out.Close(); srv.Close(); ln.Close() }
}

func TestU4_LastDataPacketBeforeEndOfBody(t *testing.T) {
	cl, got, cleanup := u4Setup(t)
	defer cleanup()

	cl.in.Write(u4Chunk(u4Data("hello ")))
	time.Sleep(100 * time.Millisecond)
	// one socket write: the last data packet and the end of the chunked body
	cl.in.Write(append(u4Chunk(u4Data("world")), "0\r\n\r\n"...))

	select {
	case b := <-got:
		if string(b) != "hello world" {
			t.Errorf("C06: the client sent the payloads \"hello \" and \"world\"; the host received %q", b)
		}
	case <-time.After(5 * time.Second):
		t.Fatal("the gateway did not end the host connection")
	}
}

func TestU4_CloseChannelBeforeEndOfBody(t *testing.T) {
	cl, got, cleanup := u4Setup(t)
	defer cleanup()

	cl.in.Write(u4Chunk(u4Data("hello ")))
	time.Sleep(100 * time.Millisecond)
	// one socket write: last data packet, CLOSE_CHANNEL, end of the chunked body
	w := append(u4Chunk(u4Data("world")), u4Chunk(u4Pkt(0x10, []byte{0, 0, 0, 0}))...)
	cl.in.Write(append(w, "0\r\n\r\n"...))

	pt, _, err := cl.recv()
	if err != nil || pt != 0x11 {
		t.Errorf("C11/C16: CLOSE_CHANNEL was not answered with a close response (type %#x, err %v)", pt, err)
	}
	select {
	case b := <-got:
		if string(b) != "hello world" {
			t.Errorf("C06: the client sent the payloads \"hello \" and \"world\"; the host received %q", b)
		}
	case <-time.After(5 * time.Second):
		t.Fatal("the gateway did not end the host connection")
	}
}
