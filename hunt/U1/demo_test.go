// Finding U1 -- demo test.
//
// Package directory: cmd/rdpgw/protocol   (file name e.g. u1_demo_test.go)
// Run with:
//   export GOFLAGS=-mod=mod GOPROXY=off GOSUMDB=off GOTOOLCHAIN=local
//   cd cmd/rdpgw/protocol && go test -count=1 -run 'TestU1' -v .
//
// TestU1_CloseChannelWhileHostIsSending  (deterministic)
//   websocket tunnel, channel open, host -> client data in flight (the client
//   is slow to read), the client ends the tunnel in the orderly way with
//   CLOSE_CHANNEL.  Required (C11): the gateway closes the connection to the
//   host within a bounded time and stops the goroutines of the tunnel;
//   (C10): no runtime panic.  Observed: the packet loop panics with
//   "concurrent write to websocket connection" (it writes the close response
//   while the relay goroutine is inside WriteMessage), the clean-up that follows
//   handler.Process() is skipped and the host connection stays open for ever.
//
// TestU1_GatewayProcessSurvivesCloseChannel  (statistical, usually fails within a few tunnels)
//   same history with a client that reads at full speed; the gateway runs in a
//   child process.  When the relay goroutine is the second writer the panic is
//   raised on a goroutine nobody recovers and the whole gateway process dies.
package protocol

import (
	"bufio"
	"bytes"
	"crypto/rand"
	"encoding/base64"
	"encoding/binary"
	"fmt"
	"io"
	"log"
	"net"
	"net/http"
	"net/http/httptest"
	"os"
	"os/exec"
	"strings"
	"sync"
	"sync/atomic"
	"testing"
	"time"
	"unicode/utf16"

	"github.com/bolkedebruin/rdpgw/cmd/rdpgw/identity"
)

// ---------------------------------------------------------------- helpers

func u1Pkt(pt uint16, body []byte) []byte {
	b := make([]byte, 8+len(body))
	binary.LittleEndian.PutUint16(b[0:], pt)
	binary.LittleEndian.PutUint32(b[4:], uint32(8+len(body)))
	copy(b[8:], body)
	return b
}

func u1UTF16(s string) []byte {
	u := utf16.Encode([]rune(s))
	b := make([]byte, 2*len(u))
	for i, c := range u {
		binary.LittleEndian.PutUint16(b[2*i:], c)
	}
	return b
}

func u1Handshake() []byte { return u1Pkt(0x1, []byte{1, 0, 0, 0, 0, 0}) }
func u1TunnelCreate() []byte {
	return u1Pkt(0x4, []byte{0x3f, 0, 0, 0, 0, 0, 0, 0})
}
func u1TunnelAuth() []byte {
	n := u1UTF16("client\x00")
	b := make([]byte, 2)
	binary.LittleEndian.PutUint16(b, uint16(len(n)))
	return u1Pkt(0x6, append(b, n...))
}
func u1ChannelCreate(host string, port int) []byte {
	n := u1UTF16(host + "\x00")
	b := []byte{1, 0, 0, 0, 3, 0, 0, 0}
	binary.LittleEndian.PutUint16(b[2:], uint16(port))
	binary.LittleEndian.PutUint16(b[6:], uint16(len(n)))
	return u1Pkt(0x8, append(b, n...))
}
func u1Data(p []byte) []byte {
	b := make([]byte, 2)
	binary.LittleEndian.PutUint16(b, uint16(len(p)))
	return u1Pkt(0xA, append(b, p...))
}
func u1CloseChannel() []byte { return u1Pkt(0x10, []byte{0, 0, 0, 0}) }

// minimal RFC 6455 client (the gateway wants the method RDG_OUT_DATA, which
// the gorilla dialer cannot send)
type u1WS struct {
	c  net.Conn
	br *bufio.Reader
}

func u1DialWS(addr string) (*u1WS, error) {
	c, err := net.Dial("tcp", addr)
	if err != nil {
		return nil, err
	}
	key := make([]byte, 16)
	rand.Read(key)
	fmt.Fprintf(c, "RDG_OUT_DATA /remoteDesktopGateway/ HTTP/1.1\r\nHost: %s\r\n"+
		"Connection: Upgrade\r\nUpgrade: websocket\r\nSec-WebSocket-Version: 13\r\n"+
		"Sec-WebSocket-Key: %s\r\nRdg-Connection-Id: {%x}\r\n\r\n",
		addr, base64.StdEncoding.EncodeToString(key), key)
	br := bufio.NewReader(c)
	line, err := br.ReadString('\n')
	if err != nil {
		return nil, err
	}
	if !strings.Contains(line, "101") {
		return nil, fmt.Errorf("no upgrade: %q", line)
	}
	for {
		l, err := br.ReadString('\n')
		if err != nil {
			return nil, err
		}
		if l == "\r\n" {
			break
		}
	}
	return &u1WS{c: c, br: br}, nil
}

func (w *u1WS) send(p []byte) error {
	hdr := []byte{0x82}
	switch {
	case len(p) < 126:
		hdr = append(hdr, 0x80|byte(len(p)))
	case len(p) < 65536:
		hdr = append(hdr, 0x80|126, byte(len(p)>>8), byte(len(p)))
	default:
		l := make([]byte, 8)
		binary.BigEndian.PutUint64(l, uint64(len(p)))
		hdr = append(append(hdr, 0x80|127), l...)
	}
	mask := []byte{1, 2, 3, 4}
	hdr = append(hdr, mask...)
	m := make([]byte, len(p))
	for i := range p {
		m[i] = p[i] ^ mask[i%4]
	}
	_, err := w.c.Write(append(hdr, m...))
	return err
}

// recv returns opcode and payload of the next frame
func (w *u1WS) recv() (byte, []byte, error) {
	h := make([]byte, 2)
	if _, err := io.ReadFull(w.br, h); err != nil {
		return 0, nil, err
	}
	n := uint64(h[1] & 0x7f)
	if n == 126 {
		b := make([]byte, 2)
		if _, err := io.ReadFull(w.br, b); err != nil {
			return 0, nil, err
		}
		n = uint64(binary.BigEndian.Uint16(b))
	} else if n == 127 {
		b := make([]byte, 8)
		if _, err := io.ReadFull(w.br, b); err != nil {
			return 0, nil, err
		}
		n = binary.BigEndian.Uint64(b)
	}
	p := make([]byte, n)
	if _, err := io.ReadFull(w.br, p); err != nil {
		return 0, nil, err
	}
	return h[0] & 0x0f, p, nil
}

// expect reads one binary frame that has to be a packet of type pt with status 0
func (w *u1WS) expect(pt uint16, statusOff int) error {
	w.c.SetReadDeadline(time.Now().Add(5 * time.Second))
	defer w.c.SetReadDeadline(time.Time{})
	_, p, err := w.recv()
	if err != nil {
		return err
	}
	if len(p) < 8+statusOff+4 || binary.LittleEndian.Uint16(p) != pt {
		return fmt.Errorf("unexpected packet % x", p)
	}
	if st := binary.LittleEndian.Uint32(p[8+statusOff:]); st != 0 {
		return fmt.Errorf("packet type %#x status %#x", pt, st)
	}
	return nil
}

// openChannel walks the tunnel up to an open channel to host:port
func (w *u1WS) openChannel(host string, port int) error {
	steps := []struct {
		req  []byte
		resp uint16
		off  int
	}{
		{u1Handshake(), 0x2, 0},
		{u1TunnelCreate(), 0x5, 2},
		{u1TunnelAuth(), 0x7, 0},
		{u1ChannelCreate(host, port), 0x9, 0},
	}
	for _, s := range steps {
		if err := w.send(s.req); err != nil {
			return err
		}
		if err := w.expect(s.resp, s.off); err != nil {
			return err
		}
	}
	return nil
}

func u1GatewayHandler() http.Handler {
	gw := &Gateway{}
	return http.HandlerFunc(func(w http.ResponseWriter, r *http.Request) {
		id := identity.NewUser()
		id.SetAttribute(identity.AttrRemoteAddr, r.RemoteAddr)
		ip, _, _ := net.SplitHostPort(r.RemoteAddr)
		id.SetAttribute(identity.AttrClientIp, ip)
		gw.HandleGatewayProtocol(w, identity.AddToRequestCtx(id, r))
	})
}

type u1SyncBuf struct {
	mu sync.Mutex
	b  bytes.Buffer
}

func (s *u1SyncBuf) Write(p []byte) (int, error) {
	s.mu.Lock()
	defer s.mu.Unlock()
	return s.b.Write(p)
}
func (s *u1SyncBuf) String() string {
	s.mu.Lock()
	defer s.mu.Unlock()
	return s.b.String()
}

// ---------------------------------------------------------------- test 1

func TestU1_CloseChannelWhileHostIsSending(t *testing.T) {
	// the remote desktop host: streams data, then waits for the gateway to hang up
	ln, err := net.Listen("tcp", "127.0.0.1:0")
	if err != nil {
		t.Fatal(err)
	}
	defer ln.Close()
	var written int64
	hostSawClose := make(chan struct{})
	go func() {
		c, err := ln.Accept()
		if err != nil {
			return
		}
		defer c.Close()
		go func() { // reader: notices the gateway closing the connection
			io.Copy(io.Discard, c)
			close(hostSawClose)
		}()
		chunk := bytes.Repeat([]byte{0x5a}, 4086)
		for i := 0; i < 4096; i++ { // up to 16 MiB
			n, err := c.Write(chunk)
			atomic.AddInt64(&written, int64(n))
			if err != nil {
				return
			}
		}
		<-hostSawClose
	}()

	var errlog u1SyncBuf
	srv := httptest.NewUnstartedServer(u1GatewayHandler())
	srv.Config.ErrorLog = log.New(&errlog, "", 0)
	srv.Start()
	defer srv.Close()

	ws, err := u1DialWS(srv.Listener.Addr().String())
	if err != nil {
		t.Fatal(err)
	}
	defer ws.c.Close()
	port := ln.Addr().(*net.TCPAddr).Port
	if err := ws.openChannel("127.0.0.1", port); err != nil {
		t.Fatal(err)
	}
	// one data packet: the channel is now in the OPENED phase
	if err := ws.send(u1Data([]byte("hello"))); err != nil {
		t.Fatal(err)
	}

	// the client does not read for a moment: host -> client data is in flight
	// and the relay goroutine sits in WriteMessage
	last := int64(-1)
	for i := 0; i < 100; i++ {
		time.Sleep(100 * time.Millisecond)
		cur := atomic.LoadInt64(&written)
		if cur == last && cur > 0 {
			break
		}
		last = cur
	}
	t.Logf("host has written %d bytes, client has read none of them yet", last)

	// orderly end of the tunnel
	if err := ws.send(u1CloseChannel()); err != nil {
		t.Fatal(err)
	}
	// a little later the client reads everything that comes until the gateway hangs up
	time.Sleep(500 * time.Millisecond)
	go func() {
		for {
			if _, _, err := ws.recv(); err != nil {
				return
			}
		}
	}()

	select {
	case <-hostSawClose:
	case <-time.After(5 * time.Second):
		t.Errorf("C11: 5s after CLOSE_CHANNEL the gateway still holds the connection to the remote desktop host open")
	}
	if s := errlog.String(); strings.Contains(s, "panic") {
		if i := strings.Index(s, "\n"); i > 0 {
			s = s[:i]
		}
		t.Errorf("C10: the gateway hit a runtime panic: %s", s)
	}
}

// ---------------------------------------------------------------- test 2

// child process: a gateway that prints its address and serves until killed
func TestU1_HelperGatewayProcess(t *testing.T) {
	if os.Getenv("U1_GATEWAY_CHILD") != "1" {
		t.Skip("helper")
	}
	log.SetOutput(io.Discard)
	srv := httptest.NewServer(u1GatewayHandler())
	fmt.Printf("ADDR %s\n", srv.Listener.Addr().String())
	select {}
}

func TestU1_GatewayProcessSurvivesCloseChannel(t *testing.T) {
	cmd := exec.Command(os.Args[0], "-test.run=TestU1_HelperGatewayProcess$")
	cmd.Env = append(os.Environ(), "U1_GATEWAY_CHILD=1")
	var stderr u1SyncBuf
	cmd.Stderr = &stderr
	out, err := cmd.StdoutPipe()
	if err != nil {
		t.Fatal(err)
	}
	if err := cmd.Start(); err != nil {
		t.Fatal(err)
	}
	exited := make(chan error, 1)
	br := bufio.NewReader(out)
	line, err := br.ReadString('\n')
	if err != nil || !strings.HasPrefix(line, "ADDR ") {
		t.Fatalf("child did not start: %q %v", line, err)
	}
	go func() { io.Copy(&stderr, br); exited <- cmd.Wait() }()
	defer cmd.Process.Kill()
	gwAddr := strings.TrimSpace(strings.TrimPrefix(line, "ADDR "))

	// the remote desktop host: streams until the peer goes away
	ln, err := net.Listen("tcp", "127.0.0.1:0")
	if err != nil {
		t.Fatal(err)
	}
	defer ln.Close()
	go func() {
		for {
			c, err := ln.Accept()
			if err != nil {
				return
			}
			go func() {
				defer c.Close()
				chunk := bytes.Repeat([]byte{0x5a}, 4086)
				for {
					if _, err := c.Write(chunk); err != nil {
						return
					}
				}
			}()
		}
	}()
	port := ln.Addr().(*net.TCPAddr).Port

	for i := 1; i <= 300; i++ {
		ws, err := u1DialWS(gwAddr)
		if err != nil {
			select {
			case <-exited:
			case <-time.After(2 * time.Second):
			}
			t.Fatalf("tunnel %d: gateway unreachable (%v); stderr of the gateway process:\n%s", i, err, u1Head(stderr.String(), 25))
		}
		if err := ws.openChannel("127.0.0.1", port); err != nil {
			ws.c.Close()
			select {
			case xerr := <-exited:
				t.Fatalf("C10: the gateway process died (%v) while tunnel %d was being set up (%v); its stderr:\n%s", xerr, i, err, u1Head(stderr.String(), 25))
			case <-time.After(2 * time.Second):
			}
			t.Fatalf("tunnel %d: %v", i, err)
		}
		done := make(chan struct{})
		go func() { // the client reads at full speed
			defer close(done)
			for {
				if _, _, err := ws.recv(); err != nil {
					return
				}
			}
		}()
		ws.send(u1Data([]byte("x")))
		time.Sleep(2 * time.Millisecond)
		ws.send(u1CloseChannel())
		select {
		case <-done:
		case <-time.After(3 * time.Second):
		}
		ws.c.Close()
		select {
		case err := <-exited:
			t.Fatalf("C10: the gateway process died (%v) after CLOSE_CHANNEL on tunnel %d; its stderr:\n%s", err, i, u1Head(stderr.String(), 25))
		default:
		}
	}
}

func u1Head(s string, n int) string {
	l := strings.Split(s, "\n")
	if len(l) > n {
		l = l[:n]
	}
	return strings.Join(l, "\n")
}
