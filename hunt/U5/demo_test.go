// Finding U5 -- demo test.
//
// Package directory: cmd/rdpgw/web   (file name e.g. u5_demo_test.go)
// Run with:
//
//	export GOFLAGS=-mod=mod GOPROXY=off GOSUMDB=off GOTOOLCHAIN=local
//	cd cmd/rdpgw/web && go test -count=1 -run 'TestU5' -v .
//
// Configuration: authentication = kerberos.  The gateway endpoint is wired
// exactly as in cmd/rdpgw/main.go:259-262:
//
//	spnego.SPNEGOKRB5Authenticate(web.TransposeSPNEGOContext(gw.HandleGatewayProtocol), keytab, logger)
//
// An unauthenticated client sends ONE request whose "Authorization: Negotiate"
// header carries a well-formed SPNEGO/Kerberos AP-REQ for the gateway's service
// principal in which the encrypted part of the ticket is shorter than the
// 12 byte checksum of the encryption type.
//
// Required (C10): the gateway answers with an error (401/400) or closes the
// connection, and does not hit a runtime panic.
// Observed: runtime panic "slice bounds out of range [:-9]" in the handler
// (gokrb5 rfc3962.DecryptMessage, reached through the SPNEGO middleware); the
// client gets no HTTP response at all.
package web

import (
	"bufio"
	"bytes"
	"encoding/base64"
	"fmt"

	"io"
	"log"
	"net"
	"net/http"
	"net/http/httptest"
	"strings"
	"sync"
	"testing"
	"time"

	"github.com/bolkedebruin/gokrb5/v8/iana/nametype"
	"github.com/bolkedebruin/gokrb5/v8/keytab"
	"github.com/bolkedebruin/gokrb5/v8/messages"
	"github.com/bolkedebruin/gokrb5/v8/service"
	"github.com/bolkedebruin/gokrb5/v8/spnego"
	"github.com/bolkedebruin/gokrb5/v8/types"
	"github.com/bolkedebruin/rdpgw/cmd/rdpgw/identity"
	"github.com/bolkedebruin/rdpgw/cmd/rdpgw/protocol"
	"github.com/jcmturner/gofork/encoding/asn1"
)

type u5Log struct {
	mu sync.Mutex
	b  bytes.Buffer
}

func (l *u5Log) Write(p []byte) (int, error) { l.mu.Lock(); defer l.mu.Unlock(); return l.b.Write(p) }
func (l *u5Log) String() string              { l.mu.Lock(); defer l.mu.Unlock(); return l.b.String() }

// u5AppTag0 is the DER header "[APPLICATION 0] length"
func u5AppTag0(n int) []byte {
	switch {
	case n < 128:
		return []byte{0x60, byte(n)}
	case n < 256:
		return []byte{0x60, 0x81, byte(n)}
	}
	return []byte{0x60, 0x82, byte(n >> 8), byte(n)}
}

// u5Token builds "Negotiate" header data: SPNEGO NegTokenInit{krb5, AP-REQ}
func u5Token(t *testing.T, spn, realm string, ticketCipher []byte) string {
	tkt := messages.Ticket{TktVNO: 5, Realm: realm,
		SName:   types.NewPrincipalName(nametype.KRB_NT_PRINCIPAL, spn),
		EncPart: types.EncryptedData{EType: 18, KVNO: 0, Cipher: ticketCipher}}
	ap := messages.APReq{PVNO: 5, MsgType: 14, APOptions: types.NewKrbFlags(), Ticket: tkt,
		EncryptedAuthenticator: types.EncryptedData{EType: 18, KVNO: 0, Cipher: make([]byte, 60)}}
	apb, err := ap.Marshal()
	if err != nil {
		t.Fatal(err)
	}
	krbOid := []byte{0x06, 0x09, 0x2a, 0x86, 0x48, 0x86, 0xf7, 0x12, 0x01, 0x02, 0x02}
	inner := append(append(append([]byte{}, krbOid...), 0x01, 0x00), apb...)
	krbTok := append(u5AppTag0(len(inner)), inner...)
	nt := spnego.NegTokenInit{MechTypes: []asn1.ObjectIdentifier{{1, 2, 840, 113554, 1, 2, 2}}, MechTokenBytes: krbTok}
	ntb, err := nt.Marshal()
	if err != nil {
		t.Fatal(err)
	}
	spnegoOid := []byte{0x06, 0x06, 0x2b, 0x06, 0x01, 0x05, 0x05, 0x02}
	in2 := append(append([]byte{}, spnegoOid...), ntb...)
	full := append(u5AppTag0(len(in2)), in2...)
	return base64.StdEncoding.EncodeToString(full)
}

func TestU5_NegotiateHeaderWithShortTicket(t *testing.T) {
	const spn, realm = "HTTP/gw.example.com", "EXAMPLE.COM"
	kt := keytab.New()
	if err := kt.AddEntry(spn, realm, "the service password", time.Unix(1700000000, 0), 1, 18); err != nil {
		t.Fatal(err)
	}

	gw := protocol.Gateway{}
	// as in main(): EnrichContext puts an identity into the context, the kerberos route follows
	var errlog u5Log
	kerberos := spnego.SPNEGOKRB5Authenticate(TransposeSPNEGOContext(http.HandlerFunc(gw.HandleGatewayProtocol)),
		kt, service.Logger(log.New(io.Discard, "", 0)))
	srv := httptest.NewUnstartedServer(http.HandlerFunc(func(w http.ResponseWriter, r *http.Request) {
		id := identity.NewUser()
		id.SetAttribute(identity.AttrRemoteAddr, r.RemoteAddr)
		kerberos.ServeHTTP(w, identity.AddToRequestCtx(id, r))
	}))
	srv.Config.ErrorLog = log.New(&errlog, "", 0)
	srv.Start()
	defer srv.Close()

	request := func(cipherLen int) (string, error) {
		c, err := net.Dial("tcp", srv.Listener.Addr().String())
		if err != nil {
			return "", err
		}
		defer c.Close()
		fmt.Fprintf(c, "RDG_OUT_DATA /remoteDesktopGateway/ HTTP/1.1\r\nHost: gw.example.com\r\nAuthorization: Negotiate %s\r\n\r\n",
			u5Token(t, spn, realm, make([]byte, cipherLen)))
		c.SetReadDeadline(time.Now().Add(5 * time.Second))
		return bufio.NewReader(c).ReadString('\n')
	}

	// control: a ticket with a long enough (but of course undecryptable) encrypted part is refused properly
	if st, err := request(80); err != nil || !strings.Contains(st, "401") {
		t.Fatalf("control request: %q %v", st, err)
	}

	st, err := request(3)
	if err != nil {
		t.Errorf("C10: no HTTP response to the request (%v)", err)
	} else if !strings.Contains(st, " 401") && !strings.Contains(st, " 400") {
		t.Errorf("unexpected answer %q", st)
	}
	time.Sleep(100 * time.Millisecond)
	if s := errlog.String(); strings.Contains(s, "panic") {
		l := strings.Split(s, "\n")
		if len(l) > 12 {
			l = l[:12]
		}
		t.Errorf("C10: the gateway hit a runtime panic:\n%s", strings.Join(l, "\n"))
	}
}
