#!/bin/bash
# run_demo.sh <id> : runs hunt/<id>/demo_test.go against /repo's working tree (copied in as an untracked test file, removed afterwards)
export GOFLAGS=-mod=mod GOPROXY=off GOSUMDB=off GOTOOLCHAIN=local
id=$1; d=/verif/hunt/$id; [ -d $d ] || d=/verif/hunt2/$id
pkg=$(awk '/^package /{print $2; exit}' $d/demo_test.go)
case $pkg in
 protocol) dir=cmd/rdpgw/protocol;; web) dir=cmd/rdpgw/web;; kdcproxy) dir=cmd/rdpgw/kdcproxy;; main) dir=cmd/rdpgw;; *) echo unknown pkg $pkg; exit 2;;
esac
f=/repo/$dir/zz_hunt_${id}_test.go
cp $d/demo_test.go $f
trap "rm -f $f" EXIT
cd /repo/$dir && go test -vet=off -count=1 -timeout 300s -run "Test${id}" . 2>&1 | tail -${2:-40}
