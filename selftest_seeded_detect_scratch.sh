#!/bin/sh
# Like selftest_seeded_detect.sh, but on a scratch worktree of /repo's HEAD (outside /repo and /verif,
# removed afterwards) so that /repo itself stays untouched. Usage: <dir with C*/patch.diff>
SRC=${1:-/verif/seeded}
WT=$(mktemp -d /tmp/seeddet.XXXXXX)
git -C /repo worktree add -q --detach "$WT/wt" HEAD || exit 2
rc=0
for d in "$SRC"/C*; do
  [ -f "$d/patch.diff" ] || continue
  id=$(basename "$d"); prop=$(echo $id | cut -c1-3)
  git -C "$WT/wt" apply "$d/patch.diff" 2>/dev/null || { echo "$id: patch does not apply"; rc=1; continue; }
  out=$(cd /verif && GOCV_REPO="$WT/wt" timeout 900 bin/gocv check -p $prop 2>&1); code=$?
  git -C "$WT/wt" checkout -q . ; git -C "$WT/wt" clean -fdq
  v=$(echo "$out" | grep -c '^VIOLATION')
  names=$(echo "$out" | grep '^  obligation' | sed 's/^  obligation //; s/ failed.*//' | sort -u | head -3 | tr '\n' ' ')
  if [ $code -eq 1 ] && [ $v -gt 0 ]; then echo "$id: DETECTED ($v violation lines) $names"; else echo "$id: MISSED (exit $code) $(echo "$out" | grep -E 'ENGINE|VACU' | head -2 | tr '\n' ' ' | cut -c1-200)"; rc=1; fi
done
cd /; git -C /repo worktree remove --force "$WT/wt"; rm -rf "$WT"
exit $rc
