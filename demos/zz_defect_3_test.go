package transport

// Defect 3: NewLegacy(w) dereferences rw.Reader even when hj.Hijack() returned
// an error (and therefore rw == nil): nil pointer dereference.
//
// The test FAILS if NewLegacy panics instead of returning the hijack error.

import (
	"bufio"
	"errors"
	"net"
	"net/http"
	"runtime/debug"
	"testing"
)

type defect3FailingHijacker struct {
	hdr http.Header
}

func (f *defect3FailingHijacker) Header() http.Header {
	if f.hdr == nil {
		f.hdr = http.Header{}
	}
	return f.hdr
}
func (f *defect3FailingHijacker) Write(b []byte) (int, error) { return len(b), nil }
func (f *defect3FailingHijacker) WriteHeader(int)             {}
func (f *defect3FailingHijacker) Hijack() (net.Conn, *bufio.ReadWriter, error) {
	return nil, nil, errors.New("x")
}

func TestDefect3NewLegacyHijackErrorPanics(t *testing.T) {
	var (
		l   *LegacyPKT
		err error
	)
	func() {
		defer func() {
			if v := recover(); v != nil {
				t.Errorf("DEFECT 3 present: NewLegacy panicked although Hijack() returned an error (rw == nil): %v\n%s",
					v, debug.Stack())
			}
		}()
		l, err = NewLegacy(&defect3FailingHijacker{})
	}()
	if t.Failed() {
		return
	}
	if err == nil {
		t.Logf("note: NewLegacy returned no error although Hijack() failed (l=%v)", l)
	}
}
