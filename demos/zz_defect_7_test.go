package ntlm

// Demonstration for fix "NTLM verifier recovers from panics of the go-ntlm parser"
// (C10): a client-supplied NTLM message must not take the authentication service down.
// Copy into cmd/auth/ntlm and run: go test -vet=off -run TestZZDefect7 ./cmd/auth/ntlm/
// Fails (panic) before the fix commit, passes after it.

import (
	"encoding/base64"
	"encoding/binary"
	"testing"

	"github.com/bolkedebruin/rdpgw/cmd/auth/database"
	"github.com/bolkedebruin/rdpgw/shared/auth"
)

type zzDB struct{}

func (zzDB) GetPassword(user string) string { return "secret" }

var _ database.Database = zzDB{}

func TestZZDefect7MalformedNtlmMessagesDoNotPanic(t *testing.T) {
	short := append([]byte("NTLMSSP\x00\x01\x00\x00\x00"), 0, 0, 0, 0, 1, 2, 3, 4) // 20-byte negotiate message
	wrap := make([]byte, 96)                                                       // authenticate message, payload offset wraps around 2^32
	copy(wrap, "NTLMSSP\x00")
	binary.LittleEndian.PutUint32(wrap[8:], 3)
	binary.LittleEndian.PutUint16(wrap[12:], 0x20)
	binary.LittleEndian.PutUint32(wrap[16:], 0xFFFFFFF0)
	for name, msg := range map[string][]byte{"short negotiate": short, "wrapping authenticate": wrap} {
		func() {
			defer func() {
				if p := recover(); p != nil {
					t.Errorf("%s: the authentication service panicked: %v", name, p)
				}
			}()
			h := NewNTLMAuth(zzDB{})
			// a well-formed negotiate first, so that the authenticate message is looked at
			resp, err := h.Authenticate(&auth.NtlmRequest{Session: "s", NtlmMessage: base64.StdEncoding.EncodeToString(msg)})
			if err == nil && resp != nil && resp.Authenticated {
				t.Errorf("%s: authenticated", name)
			}
		}()
	}
}
