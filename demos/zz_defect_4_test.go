package web

// Claim 4: (*OIDC).HandleCallback reports "no oidc claim for username found"
// but does not return, so a valid ID token WITHOUT any user-name claim still
// yields an authenticated session (with an empty user name).
//
// The test drives the real handlers (EnrichContext, (*OIDC).Authenticated,
// (*OIDC).HandleCallback) behind a gorilla/mux router wired like main.go, over
// real loopback HTTP, against a loopback fake identity provider (discovery,
// JWKS, token endpoint, userinfo). ID tokens are signed with go-jose.

import (
	"context"
	"crypto/rand"
	"crypto/rsa"
	"encoding/json"
	"io"
	"net/http"
	"net/http/cookiejar"
	"net/http/httptest"
	"net/url"
	"strings"
	"sync"
	"testing"
	"time"

	"github.com/bolkedebruin/rdpgw/cmd/rdpgw/identity"
	"github.com/coreos/go-oidc/v3/oidc"
	"github.com/go-jose/go-jose/v4"
	"github.com/gorilla/mux"
	"golang.org/x/oauth2"
)

const (
	defect4ClientID = "rdpgw-defect4"
	defect4Key      = "0123456789abcdef0123456789abcdef"
	defect4KeyID    = "defect4-key"
)

type defect4IdP struct {
	srv    *httptest.Server
	key    *rsa.PrivateKey
	signer jose.Signer
	// extra claims put into every issued ID token (besides iss/aud/sub/iat/exp)
	extraClaims map[string]interface{}
}

func (p *defect4IdP) idToken(t *testing.T) string {
	now := time.Now()
	claims := map[string]interface{}{
		"iss": p.srv.URL,
		"aud": defect4ClientID,
		"sub": "subject-1234",
		"iat": now.Unix(),
		"exp": now.Add(10 * time.Minute).Unix(),
	}
	for k, v := range p.extraClaims {
		claims[k] = v
	}
	payload, err := json.Marshal(claims)
	if err != nil {
		t.Errorf("marshal claims: %v", err)
		return ""
	}
	jws, err := p.signer.Sign(payload)
	if err != nil {
		t.Errorf("sign id token: %v", err)
		return ""
	}
	raw, err := jws.CompactSerialize()
	if err != nil {
		t.Errorf("serialize id token: %v", err)
		return ""
	}
	return raw
}

func defect4NewIdP(t *testing.T, extraClaims map[string]interface{}) *defect4IdP {
	t.Helper()
	key, err := rsa.GenerateKey(rand.Reader, 2048)
	if err != nil {
		t.Fatal(err)
	}
	signer, err := jose.NewSigner(
		jose.SigningKey{Algorithm: jose.RS256, Key: jose.JSONWebKey{Key: key, KeyID: defect4KeyID, Algorithm: "RS256", Use: "sig"}},
		(&jose.SignerOptions{}).WithType("JWT"))
	if err != nil {
		t.Fatal(err)
	}
	p := &defect4IdP{key: key, signer: signer, extraClaims: extraClaims}

	m := http.NewServeMux()
	m.HandleFunc("/.well-known/openid-configuration", func(w http.ResponseWriter, r *http.Request) {
		w.Header().Set("Content-Type", "application/json")
		json.NewEncoder(w).Encode(map[string]interface{}{
			"issuer":                                p.srv.URL,
			"authorization_endpoint":                p.srv.URL + "/auth",
			"token_endpoint":                        p.srv.URL + "/token",
			"jwks_uri":                              p.srv.URL + "/jwks",
			"userinfo_endpoint":                     p.srv.URL + "/userinfo",
			"id_token_signing_alg_values_supported": []string{"RS256"},
		})
	})
	m.HandleFunc("/jwks", func(w http.ResponseWriter, r *http.Request) {
		w.Header().Set("Content-Type", "application/json")
		json.NewEncoder(w).Encode(jose.JSONWebKeySet{Keys: []jose.JSONWebKey{
			{Key: &key.PublicKey, KeyID: defect4KeyID, Algorithm: "RS256", Use: "sig"},
		}})
	})
	m.HandleFunc("/token", func(w http.ResponseWriter, r *http.Request) {
		w.Header().Set("Content-Type", "application/json")
		json.NewEncoder(w).Encode(map[string]interface{}{
			"access_token": "access-token-1",
			"token_type":   "Bearer",
			"expires_in":   3600,
			"id_token":     p.idToken(t),
		})
	})
	m.HandleFunc("/userinfo", func(w http.ResponseWriter, r *http.Request) {
		w.Header().Set("Content-Type", "application/json")
		json.NewEncoder(w).Encode(map[string]interface{}{"sub": "subject-1234"})
	})
	p.srv = httptest.NewServer(m)
	t.Cleanup(p.srv.Close)
	return p
}

type defect4Result struct {
	callbackStatus int
	callbackBody   string
	reached        bool // wrapped handler behind (*OIDC).Authenticated was reached
	authenticated  bool // identity seen by the wrapped handler was authenticated
	userName       string
	laterStatus    int
}

// defect4Run plays a full login against the fake IdP and then revisits the
// protected endpoint with whatever session cookie the client holds.
func defect4Run(t *testing.T, storeType string, extraClaims map[string]interface{}) defect4Result {
	t.Helper()
	t.Setenv("TMPDIR", t.TempDir())
	InitStore([]byte(defect4Key), []byte(defect4Key), storeType, 0)

	p := defect4NewIdP(t, extraClaims)

	// same construction as initOIDC in main.go: discovery + remote JWKS
	provider, err := oidc.NewProvider(context.Background(), p.srv.URL)
	if err != nil {
		t.Fatalf("oidc discovery against fake IdP failed: %v", err)
	}
	verifier := provider.Verifier(&oidc.Config{ClientID: defect4ClientID})

	var res defect4Result
	var mu sync.Mutex

	r := mux.NewRouter()
	r.Use(EnrichContext)
	gw := httptest.NewServer(r)
	t.Cleanup(gw.Close)

	o := (&OIDCConfig{
		OAuth2Config: &oauth2.Config{
			ClientID:     defect4ClientID,
			ClientSecret: "secret",
			RedirectURL:  gw.URL + "/callback",
			Endpoint:     provider.Endpoint(),
			Scopes:       []string{oidc.ScopeOpenID, "profile", "email"},
		},
		OIDCTokenVerifier: verifier,
	}).New()

	r.Handle("/connect", o.Authenticated(http.HandlerFunc(func(w http.ResponseWriter, req *http.Request) {
		id := identity.FromRequestCtx(req)
		mu.Lock()
		res.reached = true
		res.authenticated = id.Authenticated()
		res.userName = id.UserName()
		mu.Unlock()
		w.WriteHeader(http.StatusOK)
		io.WriteString(w, "protected content")
	})))
	r.HandleFunc("/callback", o.HandleCallback)

	jar, err := cookiejar.New(nil)
	if err != nil {
		t.Fatal(err)
	}
	client := &http.Client{
		Jar: jar,
		CheckRedirect: func(*http.Request, []*http.Request) error {
			return http.ErrUseLastResponse
		},
		Timeout: 10 * time.Second,
	}
	get := func(u string) (int, string, http.Header) {
		resp, err := client.Get(u)
		if err != nil {
			t.Fatalf("GET %s: %v", u, err)
		}
		defer resp.Body.Close()
		b, _ := io.ReadAll(resp.Body)
		return resp.StatusCode, string(b), resp.Header
	}

	// 1. unauthenticated visit: the gateway issues a state and redirects to the IdP
	code, _, hdr := get(gw.URL + "/connect")
	if code != http.StatusFound {
		t.Fatalf("expected redirect to IdP on first visit, got %d", code)
	}
	mu.Lock()
	if res.reached {
		mu.Unlock()
		t.Fatalf("harness error: protected handler reached before any login")
	}
	mu.Unlock()
	loc, err := url.Parse(hdr.Get("Location"))
	if err != nil {
		t.Fatal(err)
	}
	if !strings.HasPrefix(loc.String(), p.srv.URL+"/auth") {
		t.Fatalf("redirected to %q, expected the IdP authorization endpoint", loc)
	}
	state := loc.Query().Get("state")
	if state == "" {
		t.Fatal("no state issued")
	}

	// 2. the IdP sends the browser back to the callback with a code
	res.callbackStatus, res.callbackBody, _ = get(gw.URL + "/callback?state=" + url.QueryEscape(state) + "&code=good")

	// 3. a later request with the session cookie the browser holds now
	mu.Lock()
	res.reached = false
	mu.Unlock()
	res.laterStatus, _, _ = get(gw.URL + "/connect")

	mu.Lock()
	defer mu.Unlock()
	return res
}

// Control: the harness really logs a user in when the token names the user.
func TestDefect4_ControlTokenWithUsernameLogsIn(t *testing.T) {
	for _, st := range []string{"cookie", "file"} {
		t.Run(st, func(t *testing.T) {
			res := defect4Run(t, st, map[string]interface{}{"preferred_username": "alice"})
			if res.callbackStatus != http.StatusFound || !res.reached || !res.authenticated || res.userName != "alice" {
				t.Fatalf("control failed (harness broken?): %+v", res)
			}
		})
	}
}

// The defect: a valid token carrying none of preferred_username, unique_name,
// upn, username must NOT produce an authenticated session.
func TestDefect4_TokenWithoutUsernameClaimMustNotAuthenticate(t *testing.T) {
	for _, st := range []string{"cookie", "file"} {
		t.Run(st, func(t *testing.T) {
			res := defect4Run(t, st, map[string]interface{}{"email": "nobody@example.org", "name": "No Body"})
			t.Logf("callback status=%d body=%q; later /connect status=%d reached=%v authenticated=%v user=%q",
				res.callbackStatus, strings.TrimSpace(res.callbackBody), res.laterStatus, res.reached, res.authenticated, res.userName)
			if !strings.Contains(res.callbackBody, "no oidc claim for username found") {
				t.Logf("note: callback did not report the missing user-name claim")
			}
			if res.reached || res.authenticated {
				t.Errorf("DEFECT (session store %q): after a callback with an ID token lacking every user-name claim "+
					"(callback answered %d %q) the session is authenticated: (*OIDC).Authenticated let the next request "+
					"through to the wrapped handler (status %d) with authenticated=%v userName=%q",
					st, res.callbackStatus, strings.TrimSpace(res.callbackBody), res.laterStatus, res.authenticated, res.userName)
			}
		})
	}
}

// Same property observed directly at the handler boundary (no HTTP transport in
// between): after HandleCallback has answered with an error for a token
// without user-name claims, the identity it was given must not have been
// switched to authenticated, and the persisted session must not be either.
func TestDefect4_CallbackMustNotMarkIdentityAuthenticated(t *testing.T) {
	t.Setenv("TMPDIR", t.TempDir())
	InitStore([]byte(defect4Key), []byte(defect4Key), "file", 0)

	p := defect4NewIdP(t, map[string]interface{}{"email": "nobody@example.org"})
	provider, err := oidc.NewProvider(context.Background(), p.srv.URL)
	if err != nil {
		t.Fatal(err)
	}
	o := (&OIDCConfig{
		OAuth2Config: &oauth2.Config{
			ClientID:     defect4ClientID,
			ClientSecret: "secret",
			RedirectURL:  "https://gw.example/callback",
			Endpoint:     provider.Endpoint(),
			Scopes:       []string{oidc.ScopeOpenID},
		},
		OIDCTokenVerifier: provider.Verifier(&oidc.Config{ClientID: defect4ClientID}),
	}).New()

	cookies := map[string]*http.Cookie{}
	do := func(h http.Handler, target string) *httptest.ResponseRecorder {
		req := httptest.NewRequest(http.MethodGet, target, nil)
		for _, c := range cookies {
			req.AddCookie(c)
		}
		w := httptest.NewRecorder()
		h.ServeHTTP(w, req)
		for _, c := range w.Result().Cookies() {
			cookies[c.Name] = c
		}
		return w
	}

	w := do(EnrichContext(o.Authenticated(http.NotFoundHandler())), "/connect")
	loc, _ := url.Parse(w.Header().Get("Location"))
	state := loc.Query().Get("state")
	if w.Code != http.StatusFound || state == "" {
		t.Fatalf("no redirect/state on first visit: %d %q", w.Code, loc)
	}

	var seen identity.Identity
	w = do(EnrichContext(http.HandlerFunc(func(w http.ResponseWriter, r *http.Request) {
		seen = identity.FromRequestCtx(r)
		o.HandleCallback(w, r)
	})), "/callback?state="+state+"&code=good")

	if seen == nil {
		t.Fatal("callback not reached")
	}
	if !strings.Contains(w.Body.String(), "no oidc claim for username found") {
		t.Fatalf("harness: expected the callback to reject the token for lacking a user name, got %d %q", w.Code, w.Body.String())
	}
	if seen.Authenticated() {
		t.Errorf("DEFECT: HandleCallback answered %d %q but still marked the request identity authenticated (userName=%q)",
			w.Code, strings.TrimSpace(strings.SplitN(w.Body.String(), "\n", 2)[0]), seen.UserName())
	}

	// what is persisted for this browser session
	req := httptest.NewRequest(http.MethodGet, "/connect", nil)
	for _, c := range cookies {
		req.AddCookie(c)
	}
	stored, err := GetSessionIdentity(req)
	if err != nil {
		t.Fatalf("GetSessionIdentity: %v", err)
	}
	if stored != nil && stored.Authenticated() {
		t.Errorf("DEFECT: the persisted session identity is authenticated (userName=%q) after a callback that was answered with an error", stored.UserName())
	}
}
