// Package directory: cmd/rdpgw   (package main; file name e.g. v3_demo_test.go)
// Run:
//   export GOFLAGS=-mod=mod GOPROXY=off GOSUMDB=off GOTOOLCHAIN=local
//   go test -count=1 -run 'TestV3' -v ./cmd/rdpgw/
//
// Property C08: the packets the gateway processes are determined solely by the
// packet headers in the client's byte stream; however the transport delivers
// it (several packets in one read or HTTP chunk, HTTP chunk boundaries
// independent of packet boundaries, on both transports) the gateway processes
// the same packets in the same order with the same effects.
//
// Legacy (RDG_IN_DATA / RDG_OUT_DATA) transport. The client byte stream is the
// same in both runs of each test:   ... <chunk with the last packet> 0 CRLF CRLF
// The only difference is the segmentation: in run A the terminating zero
// length chunk arrives in a later TCP segment than the last packet, in run B
// it arrives in the same segment. In run B the gateway never processes the
// last packet.
//
// Self contained: fake IdP, the gateway wired like main() does for openid,
// raw-socket legacy RDG client, recording backend.
package main

import (
	"bytes"
	"crypto/rand"
	"crypto/rsa"
	"encoding/binary"
	"encoding/json"
	"fmt"
	"io"
	"net"
	"net/http"
	"net/http/cookiejar"
	"net/http/httptest"
	"net/url"
	"strings"
	"sync"
	"testing"
	"time"

	"github.com/bolkedebruin/rdpgw/cmd/rdpgw/protocol"
	"github.com/bolkedebruin/rdpgw/cmd/rdpgw/security"
	"github.com/bolkedebruin/rdpgw/cmd/rdpgw/web"
	"github.com/go-jose/go-jose/v4"
	"github.com/go-jose/go-jose/v4/jwt"
	"github.com/gorilla/mux"
	"github.com/gorilla/websocket"
	"bufio"
	"strconv"
)

// ---------------------------------------------------------------- fake IdP

type idpUserV3 struct {
	Sub               string
	PreferredUsername interface{}
	Extra             map[string]interface{}
}

type fakeIdPV3 struct {
	srv      *httptest.Server
	key      *rsa.PrivateKey
	clientID string
	mu       sync.Mutex
	codes    map[string]idpUserV3 // code -> user
	tokens   map[string]idpUserV3 // access token -> user
	n        int
	// hooks
	TokenHook func(resp map[string]interface{}, claims map[string]interface{})
}

func newFakeIdPV3(t *testing.T, clientID string) *fakeIdPV3 {
	key, err := rsa.GenerateKey(rand.Reader, 2048)
	if err != nil {
		t.Fatal(err)
	}
	p := &fakeIdPV3{key: key, clientID: clientID, codes: map[string]idpUserV3{}, tokens: map[string]idpUserV3{}}
	m := http.NewServeMux()
	m.HandleFunc("/.well-known/openid-configuration", func(w http.ResponseWriter, r *http.Request) {
		json.NewEncoder(w).Encode(map[string]interface{}{
			"issuer":                                p.srv.URL,
			"authorization_endpoint":                p.srv.URL + "/auth",
			"token_endpoint":                        p.srv.URL + "/token",
			"jwks_uri":                              p.srv.URL + "/keys",
			"userinfo_endpoint":                     p.srv.URL + "/userinfo",
			"id_token_signing_alg_values_supported": []string{"RS256"},
		})
	})
	m.HandleFunc("/keys", func(w http.ResponseWriter, r *http.Request) {
		json.NewEncoder(w).Encode(jose.JSONWebKeySet{Keys: []jose.JSONWebKey{{Key: &key.PublicKey, KeyID: "k1", Algorithm: "RS256", Use: "sig"}}})
	})
	m.HandleFunc("/token", func(w http.ResponseWriter, r *http.Request) {
		r.ParseForm()
		code := r.Form.Get("code")
		p.mu.Lock()
		u, ok := p.codes[code]
		delete(p.codes, code)
		p.n++
		at := fmt.Sprintf("at-%d-%s", p.n, u.Sub)
		if ok {
			p.tokens[at] = u
		}
		p.mu.Unlock()
		if !ok {
			w.WriteHeader(400)
			json.NewEncoder(w).Encode(map[string]string{"error": "invalid_grant"})
			return
		}
		claims := map[string]interface{}{
			"iss": p.srv.URL, "aud": p.clientID, "sub": u.Sub,
			"exp": time.Now().Add(5 * time.Minute).Unix(), "iat": time.Now().Unix(),
		}
		if u.PreferredUsername != nil {
			claims["preferred_username"] = u.PreferredUsername
		}
		for k, v := range u.Extra {
			claims[k] = v
		}
		resp := map[string]interface{}{"access_token": at, "token_type": "Bearer", "expires_in": 300}
		if p.TokenHook != nil {
			p.TokenHook(resp, claims)
		}
		if _, has := resp["id_token"]; !has {
			resp["id_token"] = p.sign(t, claims)
		}
		if resp["id_token"] == nil {
			delete(resp, "id_token")
		}
		w.Header().Set("Content-Type", "application/json")
		json.NewEncoder(w).Encode(resp)
	})
	m.HandleFunc("/userinfo", func(w http.ResponseWriter, r *http.Request) {
		at := strings.TrimPrefix(r.Header.Get("Authorization"), "Bearer ")
		p.mu.Lock()
		u, ok := p.tokens[at]
		p.mu.Unlock()
		if !ok {
			w.WriteHeader(401)
			return
		}
		out := map[string]interface{}{"sub": u.Sub}
		if u.PreferredUsername != nil {
			out["preferred_username"] = u.PreferredUsername
		}
		w.Header().Set("Content-Type", "application/json")
		json.NewEncoder(w).Encode(out)
	})
	p.srv = httptest.NewServer(m)
	t.Cleanup(p.srv.Close)
	return p
}

func (p *fakeIdPV3) sign(t *testing.T, claims map[string]interface{}) string {
	sig, err := jose.NewSigner(jose.SigningKey{Algorithm: jose.RS256, Key: jose.JSONWebKey{Key: p.key, KeyID: "k1"}}, nil)
	if err != nil {
		t.Fatal(err)
	}
	s, err := jwt.Signed(sig).Claims(claims).Serialize()
	if err != nil {
		t.Fatal(err)
	}
	return s
}

func (p *fakeIdPV3) newCode(u idpUserV3) string {
	p.mu.Lock()
	defer p.mu.Unlock()
	p.n++
	c := fmt.Sprintf("code-%d", p.n)
	p.codes[c] = u
	return c
}

// ---------------------------------------------------------------- gateway

type gwOptsV3 struct {
	Hosts         []string
	HostSelection string
	SessionStore  string
	Client        web.RdpOpts
}

type testGWV3 struct {
	srv *httptest.Server
	idp *fakeIdPV3
}

const k32V3 = "0123456789abcdef0123456789abcdef"

// startGatewayV3 wires the handlers exactly like main() does for an openid only configuration.
func startGatewayV3(t *testing.T, o gwOptsV3) *testGWV3 {
	idp := newFakeIdPV3(t, "rdpgw-client")
	conf.OpenId.ProviderUrl = idp.srv.URL
	conf.OpenId.ClientId = "rdpgw-client"
	conf.OpenId.ClientSecret = "secret"

	security.VerifyClientIP = true
	security.SigningKey = []byte(k32V3)
	security.EncryptionKey = []byte(k32V3)
	security.HostSelection = o.HostSelection
	security.Hosts = o.Hosts
	if o.SessionStore == "" {
		o.SessionStore = "cookie"
	}
	web.InitStore([]byte(k32V3), []byte(k32V3), o.SessionStore, 0)

	r := mux.NewRouter()
	srv := httptest.NewServer(r)
	t.Cleanup(srv.Close)
	u, _ := url.Parse(srv.URL)
	cb := *u
	cb.Path = "callback"

	w := &web.Config{
		QueryInfo:         security.QueryInfo,
		Hosts:             o.Hosts,
		HostSelection:     o.HostSelection,
		RdpOpts:           o.Client,
		GatewayAddress:    &cb,
		PAATokenGenerator: security.GeneratePAAToken,
	}
	h := w.NewHandler()
	gw := protocol.Gateway{TokenAuth: true}
	gw.CheckPAACookie = security.CheckPAACookie
	gw.CheckHost = security.CheckSession(security.CheckHost)

	r.Use(web.EnrichContext)
	r.HandleFunc("/tokeninfo", web.TokenInfo)
	rdp := r.PathPrefix(gatewayEndPoint).Subrouter()
	oi := initOIDC(&cb)
	r.Handle("/connect", oi.Authenticated(http.HandlerFunc(h.HandleDownload)))
	r.HandleFunc("/callback", oi.HandleCallback)
	rdp.Name("gw").HandlerFunc(gw.HandleGatewayProtocol)
	return &testGWV3{srv: srv, idp: idp}
}

type browserV3 struct {
	c *http.Client
}

func newBrowserV3() *browserV3 {
	jar, _ := cookiejar.New(nil)
	return &browserV3{c: &http.Client{Jar: jar, Timeout: 15 * time.Second,
		CheckRedirect: func(*http.Request, []*http.Request) error { return http.ErrUseLastResponse }}}
}

func (b *browserV3) get(t *testing.T, u string, hdr ...string) (*http.Response, string) {
	t.Helper()
	req, _ := http.NewRequest("GET", u, nil)
	for i := 0; i+1 < len(hdr); i += 2 {
		req.Header.Set(hdr[i], hdr[i+1])
	}
	resp, err := b.c.Do(req)
	if err != nil {
		t.Fatalf("GET %s: %v", u, err)
	}
	defer resp.Body.Close()
	body, _ := io.ReadAll(resp.Body)
	return resp, string(body)
}

// login drives /connect -> IdP -> /callback and returns the state that was used.
func (g *testGWV3) login(t *testing.T, b *browserV3, u idpUserV3, connectQuery string) string {
	t.Helper()
	resp, _ := b.get(t, g.srv.URL+"/connect"+connectQuery)
	if resp.StatusCode != 302 {
		t.Fatalf("expected redirect to idp, got %d", resp.StatusCode)
	}
	loc, _ := url.Parse(resp.Header.Get("Location"))
	state := loc.Query().Get("state")
	code := g.idp.newCode(u)
	resp, body := b.get(t, g.srv.URL+"/callback?state="+state+"&code="+code)
	if resp.StatusCode != 302 {
		t.Fatalf("callback failed: %d %s", resp.StatusCode, body)
	}
	return state
}

func rdpFileV3(body string) map[string]string {
	ret := map[string]string{}
	for _, l := range strings.Split(body, "\r\n") {
		d := strings.SplitN(l, ":", 3)
		if len(d) == 3 {
			ret[d[0]] = d[2]
		}
	}
	return ret
}

// ---------------------------------------------------------------- rdg client (websocket transport)

type methodConnV3 struct {
	net.Conn
	first bool
}

func (m *methodConnV3) Write(b []byte) (int, error) {
	if !m.first {
		m.first = true
		if bytes.HasPrefix(b, []byte("GET ")) {
			nb := append([]byte("RDG_OUT_DATA "), b[4:]...)
			_, err := m.Conn.Write(nb)
			return len(b), err
		}
	}
	return m.Conn.Write(b)
}

func pktV3(pt uint16, data []byte) []byte {
	buf := new(bytes.Buffer)
	binary.Write(buf, binary.LittleEndian, pt)
	binary.Write(buf, binary.LittleEndian, uint16(0))
	binary.Write(buf, binary.LittleEndian, uint32(len(data)+8))
	buf.Write(data)
	return buf.Bytes()
}

type rdgResultV3 struct {
	Handshake, Tunnel, TunnelAuth, Channel uint32
	Stage                                  string
}

// rdgConnectV3 runs handshake, tunnel create (with cookie), tunnel auth and channel create for server:port.
func rdgConnectV3(t *testing.T, gwURL string, token string, server string, port uint16, hdr http.Header) rdgResultV3 {
	t.Helper()
	res := rdgResultV3{Handshake: 0xffffffff, Tunnel: 0xffffffff, TunnelAuth: 0xffffffff, Channel: 0xffffffff}
	u, _ := url.Parse(gwURL)
	d := websocket.Dialer{NetDial: func(network, addr string) (net.Conn, error) {
		c, err := net.Dial(network, addr)
		if err != nil {
			return nil, err
		}
		return &methodConnV3{Conn: c}, nil
	}}
	if hdr == nil {
		hdr = http.Header{}
	}
	hdr.Set("Rdg-Connection-Id", fmt.Sprintf("{%d}", time.Now().UnixNano()))
	ws, _, err := d.Dial("ws://"+u.Host+gatewayEndPoint, hdr)
	if err != nil {
		t.Fatalf("websocket dial: %v", err)
	}
	defer ws.Close()
	ws.SetReadDeadline(time.Now().Add(20 * time.Second))
	read := func() (uint16, []byte, bool) {
		_, msg, err := ws.ReadMessage()
		if err != nil || len(msg) < 8 {
			return 0, nil, false
		}
		return binary.LittleEndian.Uint16(msg), msg[8:], true
	}
	// handshake
	ws.WriteMessage(websocket.BinaryMessage, pktV3(protocol.PKT_TYPE_HANDSHAKE_REQUEST, []byte{1, 0, 0, 0, protocol.HTTP_EXTENDED_AUTH_PAA, 0}))
	res.Stage = "handshake"
	_, b, ok := read()
	if !ok {
		return res
	}
	res.Handshake = binary.LittleEndian.Uint32(b)
	if res.Handshake != 0 {
		return res
	}
	// tunnel create
	buf := new(bytes.Buffer)
	binary.Write(buf, binary.LittleEndian, uint32(protocol.HTTP_CAPABILITY_IDLE_TIMEOUT))
	binary.Write(buf, binary.LittleEndian, uint16(protocol.HTTP_TUNNEL_PACKET_FIELD_PAA_COOKIE))
	binary.Write(buf, binary.LittleEndian, uint16(0))
	tk := protocol.EncodeUTF16(token)
	binary.Write(buf, binary.LittleEndian, uint16(len(tk)))
	buf.Write(tk)
	ws.WriteMessage(websocket.BinaryMessage, pktV3(protocol.PKT_TYPE_TUNNEL_CREATE, buf.Bytes()))
	res.Stage = "tunnel"
	_, b, ok = read()
	if !ok {
		return res
	}
	res.Tunnel = binary.LittleEndian.Uint32(b[2:])
	if res.Tunnel != 0 {
		return res
	}
	// tunnel auth
	buf = new(bytes.Buffer)
	cn := protocol.EncodeUTF16("client")
	binary.Write(buf, binary.LittleEndian, uint16(len(cn)))
	buf.Write(cn)
	ws.WriteMessage(websocket.BinaryMessage, pktV3(protocol.PKT_TYPE_TUNNEL_AUTH, buf.Bytes()))
	res.Stage = "tunnelauth"
	_, b, ok = read()
	if !ok {
		return res
	}
	res.TunnelAuth = binary.LittleEndian.Uint32(b)
	if res.TunnelAuth != 0 {
		return res
	}
	// channel create
	buf = new(bytes.Buffer)
	buf.Write([]byte{1, 0})
	binary.Write(buf, binary.LittleEndian, port)
	binary.Write(buf, binary.LittleEndian, uint16(3))
	sn := protocol.EncodeUTF16(server)
	binary.Write(buf, binary.LittleEndian, uint16(len(sn)))
	buf.Write(sn)
	ws.WriteMessage(websocket.BinaryMessage, pktV3(protocol.PKT_TYPE_CHANNEL_CREATE, buf.Bytes()))
	res.Stage = "channel"
	_, b, ok = read()
	if !ok {
		return res
	}
	res.Channel = binary.LittleEndian.Uint32(b)
	return res
}

func backendV3(t *testing.T) (string, uint16) {
	l, err := net.Listen("tcp", "127.0.0.1:0")
	if err != nil {
		t.Fatal(err)
	}
	t.Cleanup(func() { l.Close() })
	go func() {
		for {
			c, err := l.Accept()
			if err != nil {
				return
			}
			go io.Copy(io.Discard, c)
		}
	}()
	return l.Addr().String(), uint16(l.Addr().(*net.TCPAddr).Port)
}

type legacyClientV3 struct {
	out, in net.Conn
	outR    *bufio.Reader
}

func readHTTPHeadV3(t *testing.T, r *bufio.Reader) string {
	var sb strings.Builder
	for {
		l, err := r.ReadString('\n')
		if err != nil {
			t.Fatalf("reading response head: %v (%q)", err, sb.String())
		}
		sb.WriteString(l)
		if l == "\r\n" {
			return sb.String()
		}
	}
}

func legacyOpenV3(t *testing.T, gwURL string) *legacyClientV3 {
	u, _ := url.Parse(gwURL)
	id := fmt.Sprintf("{%d}", time.Now().UnixNano())
	out, err := net.Dial("tcp", u.Host)
	if err != nil {
		t.Fatal(err)
	}
	fmt.Fprintf(out, "RDG_OUT_DATA %s HTTP/1.1\r\nHost: %s\r\nRdg-Connection-Id: %s\r\n\r\n", gatewayEndPoint, u.Host, id)
	outR := bufio.NewReader(out)
	out.SetReadDeadline(time.Now().Add(5 * time.Second))
	readHTTPHeadV3(t, outR)
	seed := make([]byte, 10)
	if _, err := io.ReadFull(outR, seed); err != nil {
		t.Fatal(err)
	}
	in, err := net.Dial("tcp", u.Host)
	if err != nil {
		t.Fatal(err)
	}
	fmt.Fprintf(in, "RDG_IN_DATA %s HTTP/1.1\r\nHost: %s\r\nRdg-Connection-Id: %s\r\nTransfer-Encoding: chunked\r\n\r\n", gatewayEndPoint, u.Host, id)
	inR := bufio.NewReader(in)
	in.SetReadDeadline(time.Now().Add(5 * time.Second))
	readHTTPHeadV3(t, inR)
	// the gateway discards the first read on the raw connection ("Drain")
	time.Sleep(100 * time.Millisecond)
	in.Write([]byte("preamble"))
	time.Sleep(200 * time.Millisecond)
	return &legacyClientV3{out: out, in: in, outR: outR}
}

func chunkV3(b []byte) []byte {
	return append(append([]byte(fmt.Sprintf("%x\r\n", len(b))), b...), '\r', '\n')
}

func (c *legacyClientV3) readPacket(d time.Duration) (uint16, []byte, error) {
	c.out.SetReadDeadline(time.Now().Add(d))
	h := make([]byte, 8)
	if _, err := io.ReadFull(c.outR, h); err != nil {
		return 0, nil, err
	}
	sz := binary.LittleEndian.Uint32(h[4:])
	body := make([]byte, sz-8)
	if _, err := io.ReadFull(c.outR, body); err != nil {
		return 0, nil, err
	}
	return binary.LittleEndian.Uint16(h), body, nil
}


type recBackendV3 struct {
	mu   sync.Mutex
	data []byte
	addr string
}

func (r *recBackendV3) bytes() []byte { r.mu.Lock(); defer r.mu.Unlock(); return append([]byte{}, r.data...) }

func recordingBackendV3(t *testing.T) *recBackendV3 {
	l, err := net.Listen("tcp", "127.0.0.1:0")
	if err != nil {
		t.Fatal(err)
	}
	t.Cleanup(func() { l.Close() })
	rb := &recBackendV3{addr: l.Addr().String()}
	go func() {
		for {
			c, err := l.Accept()
			if err != nil {
				return
			}
			go func() {
				buf := make([]byte, 4096)
				for {
					n, err := c.Read(buf)
					rb.mu.Lock()
					rb.data = append(rb.data, buf[:n]...)
					rb.mu.Unlock()
					if err != nil {
						return
					}
				}
			}()
		}
	}()
	return rb
}

func dataPktV3(b []byte) []byte {
	buf := new(bytes.Buffer)
	binary.Write(buf, binary.LittleEndian, uint16(len(b)))
	buf.Write(b)
	return pktV3(protocol.PKT_TYPE_DATA, buf.Bytes())
}

func legacySessionV3(t *testing.T, g *testGWV3, f map[string]string, coalesce bool) {
	h, p, _ := net.SplitHostPort(f["full address"])
	pi, _ := strconv.Atoi(p)
	c := legacyOpenV3(t, g.srv.URL)
	defer c.in.Close()
	defer c.out.Close()
	step := func(name string, b []byte) {
		c.in.Write(chunkV3(b))
		pt, body, err := c.readPacket(3 * time.Second)
		if err != nil {
			t.Fatalf("%s: %v", name, err)
		}
		_ = pt
		_ = body
	}
	step("handshake", pktV3(protocol.PKT_TYPE_HANDSHAKE_REQUEST, []byte{1, 0, 0, 0, protocol.HTTP_EXTENDED_AUTH_PAA, 0}))
	buf := new(bytes.Buffer)
	binary.Write(buf, binary.LittleEndian, uint32(protocol.HTTP_CAPABILITY_IDLE_TIMEOUT))
	binary.Write(buf, binary.LittleEndian, uint16(protocol.HTTP_TUNNEL_PACKET_FIELD_PAA_COOKIE))
	binary.Write(buf, binary.LittleEndian, uint16(0))
	tk := protocol.EncodeUTF16(f["gatewayaccesstoken"])
	binary.Write(buf, binary.LittleEndian, uint16(len(tk)))
	buf.Write(tk)
	step("tunnel", pktV3(protocol.PKT_TYPE_TUNNEL_CREATE, buf.Bytes()))
	buf = new(bytes.Buffer)
	cn := protocol.EncodeUTF16("client")
	binary.Write(buf, binary.LittleEndian, uint16(len(cn)))
	buf.Write(cn)
	step("tunnelauth", pktV3(protocol.PKT_TYPE_TUNNEL_AUTH, buf.Bytes()))
	buf = new(bytes.Buffer)
	buf.Write([]byte{1, 0})
	binary.Write(buf, binary.LittleEndian, uint16(pi))
	binary.Write(buf, binary.LittleEndian, uint16(3))
	sn := protocol.EncodeUTF16(h)
	binary.Write(buf, binary.LittleEndian, uint16(len(sn)))
	buf.Write(sn)
	step("channel", pktV3(protocol.PKT_TYPE_CHANNEL_CREATE, buf.Bytes()))

	c.in.Write(chunkV3(dataPktV3([]byte("hello "))))
	time.Sleep(100 * time.Millisecond)
	last := chunkV3(dataPktV3([]byte("world")))
	end := []byte("0\r\n\r\n")
	if coalesce {
		c.in.Write(append(last, end...))
	} else {
		c.in.Write(last)
		time.Sleep(100 * time.Millisecond)
		c.in.Write(end)
	}
	time.Sleep(300 * time.Millisecond)
	io.WriteString(io.Discard, "")
}


// TestV3_HandshakeCoalescedWithEndOfBody: smallest form, no token needed.
func TestV3_HandshakeCoalescedWithEndOfBody(t *testing.T) {
	addr, _ := backendV3(t)
	g := startGatewayV3(t, gwOptsV3{Hosts: []string{addr}, HostSelection: "roundrobin"})
	hs := pktV3(protocol.PKT_TYPE_HANDSHAKE_REQUEST, []byte{1, 0, 0, 0, protocol.HTTP_EXTENDED_AUTH_PAA, 0})
	end := []byte("0\r\n\r\n")

	// run A: packet and end of body in separate segments
	c := legacyOpenV3(t, g.srv.URL)
	c.in.Write(chunkV3(hs))
	time.Sleep(150 * time.Millisecond)
	c.in.Write(end)
	ptA, _, errA := c.readPacket(2 * time.Second)
	c.in.Close()
	c.out.Close()

	// run B: same bytes, one segment
	c = legacyOpenV3(t, g.srv.URL)
	c.in.Write(append(chunkV3(hs), end...))
	ptB, _, errB := c.readPacket(2 * time.Second)
	c.in.Close()
	c.out.Close()

	t.Logf("run A (separate segments): response packet type %#x err=%v", ptA, errA)
	t.Logf("run B (one segment)      : response packet type %#x err=%v", ptB, errB)
	if errA != nil || ptA != protocol.PKT_TYPE_HANDSHAKE_RESPONSE {
		t.Fatalf("reference run did not produce a handshake response")
	}
	if errB != nil || ptB != ptA {
		t.Errorf("same byte stream, different segmentation: the handshake request was processed in run A "+
			"(response %#x) but not in run B (err=%v)", ptA, errB)
	}
}

// TestV3_LastDataPacketLost: a complete session with a valid token; the bytes
// of the last DATA packet never reach the remote desktop host in run B.
func TestV3_LastDataPacketLost(t *testing.T) {
	got := map[bool]string{}
	for _, coalesce := range []bool{false, true} {
		rb := recordingBackendV3(t)
		g := startGatewayV3(t, gwOptsV3{Hosts: []string{rb.addr}, HostSelection: "roundrobin"})
		b := newBrowserV3()
		g.login(t, b, idpUserV3{Sub: "alice", PreferredUsername: "alice"}, "")
		resp, body := b.get(t, g.srv.URL+"/connect")
		if resp.StatusCode != 200 {
			t.Fatalf("/connect: %d", resp.StatusCode)
		}
		legacySessionV3(t, g, rdpFileV3(body), coalesce)
		got[coalesce] = string(rb.bytes())
	}
	t.Logf("run A (end of body in its own segment)      : remote desktop host received %q", got[false])
	t.Logf("run B (end of body coalesced with last packet): remote desktop host received %q", got[true])
	if got[false] != "hello world" {
		t.Fatalf("reference run broken: %q", got[false])
	}
	if got[true] != got[false] {
		t.Errorf("same packet sequence, different segmentation: bytes at the remote desktop host differ: %q vs %q", got[false], got[true])
	}
}
