package main

import (
	"net/http"
	"net/http/httptest"
	"testing"

	"github.com/gorilla/mux"
)

// route selection with the anchored Authorization patterns of main(): a header reaches the handler of its own scheme only
func TestAnchoredAuthorizationRoutes(t *testing.T) {
	r := mux.NewRouter()
	rdp := r.PathPrefix("/remoteDesktopGateway/").Subrouter()
	hit := ""
	mk := func(n string) http.HandlerFunc { return func(w http.ResponseWriter, r *http.Request) { hit = n } }
	rdp.NewRoute().HeadersRegexp("Authorization", "^NTLM ").HandlerFunc(mk("ntlm"))
	rdp.NewRoute().HeadersRegexp("Authorization", "^Negotiate ").HandlerFunc(mk("negotiate"))
	rdp.NewRoute().HeadersRegexp("Authorization", "^Basic ").HandlerFunc(mk("basic"))
	for hdr, want := range map[string]string{
		"Basic YWxpY2U6cFNTLMOpdMOp":   "basic", // base64 text contains "NTLM"
		"Basic TmVnb3RpYXRlTlRMTQ==":   "basic",
		"NTLM TlRMTVNTUAABasicAAA=":     "ntlm",
		"Negotiate YIIBasicNTLM":       "negotiate",
		"Bearer NTLM Basic Negotiate ": "",
		"xBasic abc":                   "",
	} {
		hit = ""
		req := httptest.NewRequest("GET", "/remoteDesktopGateway/", nil)
		req.Header.Set("Authorization", hdr)
		r.ServeHTTP(httptest.NewRecorder(), req)
		if hit != want {
			t.Errorf("Authorization %q reached %q, want %q", hdr, hit, want)
		}
	}
}
