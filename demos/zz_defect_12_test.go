package protocol

// Demonstration for fix "readMessage frames the client stream by length fields only" (C08):
// however the transport cuts the byte stream — a packet in three or more reads, several packets
// in one read, a first fragment larger than 4096 bytes, a read that ends inside the next packet's
// header — the same packets come out in the same order. Copy into cmd/rdpgw/protocol and run:
//   go test -vet=off -run TestZZDefect12 ./cmd/rdpgw/protocol/
// Fails before the fix commit (packets dropped, misparsed or rejected), passes after it.

import (
	"bytes"
	"encoding/binary"
	"errors"
	"fmt"
	"math/rand"
	"testing"
)

type zz12Transport struct {
	chunks [][]byte
}

func (s *zz12Transport) ReadPacket() (int, []byte, error) {
	if len(s.chunks) == 0 {
		return 0, []byte{0, 0}, errors.New("end of stream")
	}
	c := s.chunks[0]
	s.chunks = s.chunks[1:]
	return len(c), append([]byte{}, c...), nil
}
func (s *zz12Transport) WritePacket(b []byte) (int, error) { return len(b), nil }
func (s *zz12Transport) Close() error                      { return nil }

func zz12Packet(pt uint16, body []byte) []byte {
	b := make([]byte, 8+len(body))
	binary.LittleEndian.PutUint16(b, pt)
	binary.LittleEndian.PutUint32(b[4:], uint32(len(b)))
	copy(b[8:], body)
	return b
}

// zz12Run feeds the chunks to the real Tunnel.Read until the stream ends and returns what came out.
func zz12Run(chunks [][]byte) (out []string) {
	t := &Tunnel{transportIn: &zz12Transport{chunks: chunks}}
	for i := 0; i < 1000; i++ {
		pt, n, body, err := t.Read()
		if err != nil {
			out = append(out, "end: "+err.Error())
			return
		}
		out = append(out, fmt.Sprintf("type=%d size=%d body=%x", pt, n, body))
	}
	return
}

func TestZZDefect12SegmentationDoesNotChangeThePackets(t *testing.T) {
	r := rand.New(rand.NewSource(12))
	body := func(n int) []byte { b := make([]byte, n); r.Read(b); return b }
	packets := [][]byte{
		zz12Packet(1, body(6)), zz12Packet(4, body(300)), zz12Packet(10, body(5000)), zz12Packet(10, body(0)),
		zz12Packet(10, body(9000)), zz12Packet(13, body(1)), zz12Packet(10, body(4088)), zz12Packet(16, body(4)),
	}
	var stream []byte
	var whole [][]byte
	for _, p := range packets {
		stream = append(stream, p...)
		whole = append(whole, p)
	}
	want := zz12Run(whole) // one packet per read: works before and after the fix
	if len(want) != len(packets)+1 {
		t.Fatalf("reference run gave %d results", len(want))
	}
	cut := func(sizes func() int) [][]byte {
		var cs [][]byte
		for rest := stream; len(rest) > 0; {
			n := sizes()
			if n > len(rest) {
				n = len(rest)
			}
			cs = append(cs, rest[:n])
			rest = rest[n:]
		}
		return cs
	}
	cases := map[string][][]byte{
		"everything in one read": {stream},
		"fixed 4096 byte reads (the legacy transport's buffer)": cut(func() int { return 4096 }),
		"fixed 1460 byte reads (tcp segments)":                  cut(func() int { return 1460 }),
		"7 byte reads (every header is cut)":                    cut(func() int { return 7 }),
		"random reads of 1..6000 bytes":                         cut(func() int { return 1 + r.Intn(6000) }),
	}
	for name, chunks := range cases {
		got := zz12Run(chunks)
		if len(got) != len(want) {
			t.Errorf("%s: %d results, want %d; first results: %.200v", name, len(got), len(want), got)
			continue
		}
		for i := range want {
			if got[i] != want[i] && !(i == len(want)-1) {
				t.Errorf("%s: packet %d differs:\n got  %.120s\n want %.120s", name, i, got[i], want[i])
				break
			}
		}
	}
	// a stream that cannot be framed ends the tunnel with an error
	bad := append(append([]byte{}, packets[0]...), 1, 0, 0, 0, 5, 0, 0, 0, 9, 9)
	got := zz12Run([][]byte{bad})
	if len(got) != 2 || !bytes.HasPrefix([]byte(got[1]), []byte("end: ")) {
		t.Errorf("length field smaller than the header: %v", got)
	}
}
