package protocol

// Demo for the fix "close the outgoing connection of a tunnel that expires from the cache without an
// incoming connection" (C11): copy into cmd/rdpgw/protocol and run `go test -run TestParkedOutIsClosedOnExpiry`.
// Before the fix the parked connection was never closed by the gateway.

import (
	"testing"
	"time"
)

type parkedTransport struct{ closed chan struct{} }

func (p *parkedTransport) ReadPacket() (int, []byte, error) { return 0, nil, nil }
func (p *parkedTransport) WritePacket(b []byte) (int, error) { return len(b), nil }
func (p *parkedTransport) Close() error                      { close(p.closed); return nil }

func TestParkedOutIsClosedOnExpiry(t *testing.T) {
	out := &parkedTransport{closed: make(chan struct{})}
	tun := &Tunnel{RDGId: "{parked}", transportOut: out}
	c.Set(tun.RDGId, tun, 20*time.Millisecond) // what the RDG_OUT_DATA request does, with a short expiry
	time.Sleep(50 * time.Millisecond)
	c.DeleteExpired() // what the cache's janitor does every clean-up interval
	select {
	case <-out.closed:
	case <-time.After(time.Second):
		t.Fatal("the outgoing connection of the expired tunnel was not closed")
	}
	// a tunnel that has its incoming connection is owned by its handler and left alone
	live := &parkedTransport{closed: make(chan struct{})}
	tun2 := &Tunnel{RDGId: "{live}", transportOut: live, transportIn: live}
	c.Set(tun2.RDGId, tun2, 20*time.Millisecond)
	time.Sleep(50 * time.Millisecond)
	c.DeleteExpired()
	select {
	case <-live.closed:
		t.Fatal("the transport of a tunnel with a running handler was closed by the cache")
	case <-time.After(100 * time.Millisecond):
	}
}
