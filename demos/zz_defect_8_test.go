package kdcproxy

// Demonstration for fix "kdcproxy waits for the first kdc that answers" (C20):
// a realm whose KDC answers over TCP while its UDP port refuses must get the KDC's
// reply, not 503. Copy into cmd/rdpgw/kdcproxy and run:
//   go test -vet=off -run TestZZDefect8 ./cmd/rdpgw/kdcproxy/
// Fails before the fix commit, passes after it.

import (
	"encoding/binary"
	"fmt"
	"io"
	"net"
	"os"
	"path/filepath"
	"testing"
	"time"
)

func TestZZDefect8RefusingKdcDoesNotHideTheAnsweringOne(t *testing.T) {
	ln, err := net.Listen("tcp", "127.0.0.1:0")
	if err != nil {
		t.Skip(err)
	}
	defer ln.Close()
	port := ln.Addr().(*net.TCPAddr).Port
	answer := []byte{0x6b, 0x03, 0x01, 0x02, 0x03}
	go func() {
		for {
			c, err := ln.Accept()
			if err != nil {
				return
			}
			go func(c net.Conn) {
				defer c.Close()
				hdr := make([]byte, 4)
				if _, err := io.ReadFull(c, hdr); err != nil {
					return
				}
				body := make([]byte, binary.BigEndian.Uint32(hdr))
				io.ReadFull(c, body)
				time.Sleep(300 * time.Millisecond) // the refusal of the udp port arrives first
				out := make([]byte, 4+len(answer))
				binary.BigEndian.PutUint32(out, uint32(len(answer)))
				copy(out[4:], answer)
				c.Write(out)
			}(c)
		}
	}()
	// nothing listens on the udp port of the same number: the kernel answers with "connection refused"
	conf := filepath.Join(t.TempDir(), "krb5.conf")
	os.WriteFile(conf, []byte(fmt.Sprintf("[libdefaults]\n default_realm = EXAMPLE.COM\n dns_lookup_kdc = false\n[realms]\n EXAMPLE.COM = {\n  kdc = 127.0.0.1:%d\n }\n", port)), 0o600)
	k := InitKdcProxy(conf)
	msg := []byte{0, 0, 0, 3, 0x6a, 0x01, 0x00}
	start := time.Now()
	resp, err := k.forward("EXAMPLE.COM", msg)
	if err != nil {
		t.Fatalf("the kdc answered over tcp but forward failed after %v: %v", time.Since(start), err)
	}
	if len(resp) != 4+len(answer) || string(resp[4:]) != string(answer) {
		t.Fatalf("reply not relayed verbatim: %x", resp)
	}
}
