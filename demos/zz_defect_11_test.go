package config

// Demonstration for fix "refuse token signing keys shorter than 32 characters" (C18): the gateway
// must not run with a user-token or query-token signing key of 1..31 characters (go-jose refuses
// to sign or verify HS256 with such a key, so every token is broken at run time instead of the
// configuration being refused at start-up). Copy into cmd/rdpgw/config and run:
//   go test -vet=off -run TestZZDefect11 ./cmd/rdpgw/config/
// Fails before the fix commit, passes after it. Each case runs Load in a child process because a
// refusal is a log.Fatal.

import (
	"fmt"
	"os"
	"os/exec"
	"path/filepath"
	"strings"
	"testing"
)

func TestZZDefect11Helper(t *testing.T) {
	path := os.Getenv("ZZ11_CONFIG")
	if path == "" {
		t.Skip("helper")
	}
	c := Load(path)
	fmt.Printf("\nZZ11-STARTED user=%d query=%d\n", len(c.Security.UserTokenSigningKey), len(c.Security.QueryTokenSigningKey))
}

func zz11Starts(t *testing.T, yaml string) bool {
	path := filepath.Join(t.TempDir(), "rdpgw.yaml")
	os.WriteFile(path, []byte(yaml), 0o600)
	cmd := exec.Command(os.Args[0], "-test.run=^TestZZDefect11Helper$", "-test.count=1")
	for _, e := range os.Environ() {
		if !strings.HasPrefix(e, "RDPGW_") {
			cmd.Env = append(cmd.Env, e)
		}
	}
	cmd.Env = append(cmd.Env, "ZZ11_CONFIG="+path)
	out, _ := cmd.CombinedOutput()
	return strings.Contains(string(out), "ZZ11-STARTED")
}

func TestZZDefect11ShortTokenSigningKeysAreRefused(t *testing.T) {
	const base = "Server:\n Hosts:\n  - localhost:3389\n Tls: auto\n"
	long := strings.Repeat("k", 32)
	cases := []struct {
		name, yaml string
		starts     bool
	}{
		{"user key 1", base + "Security:\n EnableUserToken: true\n UserTokenSigningKey: x\n", false},
		{"user key 31", base + "Security:\n EnableUserToken: true\n UserTokenSigningKey: " + long[:31] + "\n", false},
		{"user key 32", base + "Security:\n EnableUserToken: true\n UserTokenSigningKey: " + long + "\n", true},
		{"user key absent", base + "Security:\n EnableUserToken: true\n", true},
		{"query key 1", base + " HostSelection: signed\nSecurity:\n QueryTokenSigningKey: y\n", false},
		{"query key 31", base + " HostSelection: signed\nSecurity:\n QueryTokenSigningKey: " + long[:31] + "\n", false},
		{"query key 32", base + " HostSelection: signed\nSecurity:\n QueryTokenSigningKey: " + long + "\n", true},
		{"query key unused", base + "Security:\n QueryTokenSigningKey: y\n", true},
	}
	for _, c := range cases {
		if got := zz11Starts(t, c.yaml); got != c.starts {
			t.Errorf("%s: gateway starts = %v, want %v", c.name, got, c.starts)
		}
	}
}
