package protocol

// Defect 1: when the client side of a tunnel ends after a channel to a backend
// host has been created, the gateway never closes its TCP connection to the
// backend host (Tunnel.rwc). The backend sees no EOF.
//
// The test drives the real (*Gateway).HandleGatewayProtocol over a real
// websocket (httptest server + gorilla/websocket client) and uses a real
// loopback TCP listener as the backend. It FAILS if the backend connection is
// still open 2 seconds after the client side ended.

import (
	"bytes"
	"errors"
	"fmt"
	"net"
	"net/http"
	"net/http/httptest"
	"strings"
	"sync"
	"testing"
	"time"

	"github.com/bolkedebruin/rdpgw/cmd/rdpgw/identity"
	"github.com/gorilla/websocket"
)

// defect1MethodConn rewrites the request line of the websocket opening
// handshake from "GET " to "RDG_OUT_DATA " so that the server sees the method
// a real MS-TSGU websocket client uses.
type defect1MethodConn struct {
	net.Conn
	once sync.Once
}

func (c *defect1MethodConn) Write(b []byte) (int, error) {
	rewritten := false
	var out []byte
	c.once.Do(func() {
		if bytes.HasPrefix(b, []byte("GET ")) {
			out = append([]byte(MethodRDGOUT+" "), b[4:]...)
			rewritten = true
		}
	})
	if !rewritten {
		return c.Conn.Write(b)
	}
	if _, err := c.Conn.Write(out); err != nil {
		return 0, err
	}
	return len(b), nil
}

type defect1Backend struct {
	ln       net.Listener
	accepted chan net.Conn
}

func newDefect1Backend(t *testing.T) *defect1Backend {
	ln, err := net.Listen("tcp", "127.0.0.1:0")
	if err != nil {
		t.Fatalf("cannot listen for backend: %s", err)
	}
	b := &defect1Backend{ln: ln, accepted: make(chan net.Conn, 1)}
	go func() {
		conn, err := ln.Accept()
		if err != nil {
			return
		}
		b.accepted <- conn
	}()
	return b
}

func (b *defect1Backend) port() int {
	return b.ln.Addr().(*net.TCPAddr).Port
}

// defect1Setup starts the gateway and performs handshake -> tunnel create ->
// tunnel auth -> channel create. It returns the client websocket, the backend
// side of the gateway->backend TCP connection and a channel that is closed
// when HandleGatewayProtocol has returned.
func defect1Setup(t *testing.T) (*websocket.Conn, net.Conn, chan struct{}, func()) {
	backend := newDefect1Backend(t)

	gw := &Gateway{}
	handlerDone := make(chan struct{})
	srv := httptest.NewServer(http.HandlerFunc(func(w http.ResponseWriter, r *http.Request) {
		defer close(handlerDone)
		if r.Method != MethodRDGOUT {
			t.Errorf("test harness: server saw method %q, expected %q", r.Method, MethodRDGOUT)
		}
		// the same thing web.EnrichContext does
		id := identity.NewUser()
		id.SetAttribute(identity.AttrRemoteAddr, r.RemoteAddr)
		id.SetAttribute(identity.AttrClientIp, "127.0.0.1")
		gw.HandleGatewayProtocol(w, identity.AddToRequestCtx(id, r))
	}))

	cleanup := func() {
		backend.ln.Close()
		srv.CloseClientConnections()
		srv.Close()
	}

	dialer := websocket.Dialer{
		NetDial: func(network, addr string) (net.Conn, error) {
			conn, err := net.Dial(network, addr)
			if err != nil {
				return nil, err
			}
			return &defect1MethodConn{Conn: conn}, nil
		},
		HandshakeTimeout: 5 * time.Second,
	}
	hdr := http.Header{}
	hdr.Set(rdgConnectionIdKey, fmt.Sprintf("defect1-%d", time.Now().UnixNano()))
	url := "ws" + strings.TrimPrefix(srv.URL, "http") + "/remoteDesktopGateway/"
	ws, _, err := dialer.Dial(url, hdr)
	if err != nil {
		cleanup()
		t.Fatalf("cannot open websocket to the gateway: %s", err)
	}

	client := &ClientConfig{Name: "defect1-client", Server: "127.0.0.1", Port: backend.port()}

	exchange := func(name string, req []byte, expType int) []byte {
		ws.SetWriteDeadline(time.Now().Add(5 * time.Second))
		if err := ws.WriteMessage(websocket.BinaryMessage, req); err != nil {
			t.Fatalf("%s: cannot send request: %s", name, err)
		}
		ws.SetReadDeadline(time.Now().Add(5 * time.Second))
		_, msg, err := ws.ReadMessage()
		if err != nil {
			t.Fatalf("%s: cannot read response: %s", name, err)
		}
		pt, _, body, err := readHeader(msg)
		if err != nil {
			t.Fatalf("%s: bad response header: %s", name, err)
		}
		if int(pt) != expType {
			t.Fatalf("%s: expected response type %#x got %#x", name, expType, pt)
		}
		return body
	}

	if _, err := client.handshakeResponse(exchange("handshake", client.handshakeRequest(), PKT_TYPE_HANDSHAKE_RESPONSE)); err != nil {
		t.Fatalf("handshake failed: %s", err)
	}
	if _, _, err := client.tunnelResponse(exchange("tunnel create", client.tunnelRequest(), PKT_TYPE_TUNNEL_RESPONSE)); err != nil {
		t.Fatalf("tunnel create failed: %s", err)
	}
	if _, _, err := client.tunnelAuthResponse(exchange("tunnel auth", client.tunnelAuthRequest(), PKT_TYPE_TUNNEL_AUTH_RESPONSE)); err != nil {
		t.Fatalf("tunnel auth failed: %s", err)
	}
	if _, err := client.channelResponse(exchange("channel create", client.channelRequest(), PKT_TYPE_CHANNEL_RESPONSE)); err != nil {
		t.Fatalf("channel create failed: %s", err)
	}

	var bconn net.Conn
	select {
	case bconn = <-backend.accepted:
	case <-time.After(5 * time.Second):
		cleanup()
		t.Fatalf("gateway reported channel creation but the backend never got a connection")
	}

	return ws, bconn, handlerDone, func() {
		bconn.Close()
		ws.Close()
		cleanup()
	}
}

// defect1BackendClosed reports whether the backend side sees the gateway's
// connection closed (EOF or reset) within d.
func defect1BackendClosed(bconn net.Conn, d time.Duration) (bool, string) {
	bconn.SetReadDeadline(time.Now().Add(d))
	buf := make([]byte, 4096)
	for {
		_, err := bconn.Read(buf)
		if err == nil {
			continue // data from the client, keep waiting for EOF
		}
		var ne net.Error
		if errors.As(err, &ne) && ne.Timeout() {
			return false, "read timed out, connection still open"
		}
		return true, err.Error()
	}
}

func defect1WaitHandler(t *testing.T, done chan struct{}) {
	select {
	case <-done:
	case <-time.After(5 * time.Second):
		t.Fatalf("HandleGatewayProtocol did not return after the client side ended (cannot judge the leak)")
	}
}

func TestDefect1BackendConnLeakOnClientClose(t *testing.T) {
	ws, bconn, done, cleanup := defect1Setup(t)
	defer cleanup()

	// the client closes the websocket (close frame + TCP close)
	ws.WriteControl(websocket.CloseMessage, websocket.FormatCloseMessage(websocket.CloseNormalClosure, ""), time.Now().Add(time.Second))
	ws.Close()
	defect1WaitHandler(t, done)

	if closed, why := defect1BackendClosed(bconn, 2*time.Second); !closed {
		t.Errorf("DEFECT 1 present: client closed the websocket and HandleGatewayProtocol returned, "+
			"but the gateway->backend TCP connection (Tunnel.rwc) is still open after 2s (%s)", why)
	}
}

func TestDefect1BackendConnLeakOnCloseChannel(t *testing.T) {
	ws, bconn, done, cleanup := defect1Setup(t)
	defer cleanup()

	// one data packet (moves the server into SERVER_STATE_OPENED), then CLOSE_CHANNEL
	payload := []byte("hello")
	data := new(bytes.Buffer)
	data.Write([]byte{byte(len(payload)), 0})
	data.Write(payload)
	if err := ws.WriteMessage(websocket.BinaryMessage, createPacket(PKT_TYPE_DATA, data.Bytes())); err != nil {
		t.Fatalf("cannot send data packet: %s", err)
	}
	bconn.SetReadDeadline(time.Now().Add(5 * time.Second))
	got := make([]byte, len(payload))
	if _, err := bconn.Read(got); err != nil || !bytes.Equal(got, payload) {
		t.Fatalf("backend did not receive the forwarded data: %q %v", got, err)
	}

	if err := ws.WriteMessage(websocket.BinaryMessage, createPacket(PKT_TYPE_CLOSE_CHANNEL, []byte{})); err != nil {
		t.Fatalf("cannot send close channel: %s", err)
	}
	ws.SetReadDeadline(time.Now().Add(5 * time.Second))
	_, msg, err := ws.ReadMessage()
	if err != nil {
		t.Fatalf("no close channel response: %s", err)
	}
	if pt, _, _, _ := readHeader(msg); pt != PKT_TYPE_CLOSE_CHANNEL_RESPONSE {
		t.Fatalf("expected close channel response got %#x", pt)
	}
	defect1WaitHandler(t, done)

	if closed, why := defect1BackendClosed(bconn, 2*time.Second); !closed {
		t.Errorf("DEFECT 1 present: client sent CLOSE_CHANNEL, the gateway answered CLOSE_CHANNEL_RESPONSE and "+
			"HandleGatewayProtocol returned, but the gateway->backend TCP connection (Tunnel.rwc) is still open after 2s (%s)", why)
	}
}

func TestDefect1BackendConnLeakOnOutOfOrderPacket(t *testing.T) {
	ws, bconn, done, cleanup := defect1Setup(t)
	defer cleanup()

	// a second handshake request is out of order: Process returns an error
	client := &ClientConfig{}
	if err := ws.WriteMessage(websocket.BinaryMessage, client.handshakeRequest()); err != nil {
		t.Fatalf("cannot send out-of-order handshake: %s", err)
	}
	defect1WaitHandler(t, done)

	if closed, why := defect1BackendClosed(bconn, 2*time.Second); !closed {
		t.Errorf("DEFECT 1 present: client sent an out-of-order packet and HandleGatewayProtocol returned, "+
			"but the gateway->backend TCP connection (Tunnel.rwc) is still open after 2s (%s)", why)
	}
}
