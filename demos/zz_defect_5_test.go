package web

// Claim 5: (*NTLMAuthHandler).getAuthPayload slices the Authorization header
// with [0:5] and [0:10] without checking its length. main.go selects the NTLM
// routes with the unanchored HeadersRegexp("Authorization", "NTLM") and
// ("Authorization", "Negotiate"), so short / oddly shaped header values reach
// the handler and make it panic.

import (
	"fmt"
	"net/http"
	"net/http/httptest"
	"testing"

	"github.com/gorilla/mux"
)

// headers that match the route regexps of main.go but are shorter than the
// prefixes getAuthPayload slices for
var defect5Headers = []string{
	"NTLM",      // 4 bytes: [0:5] out of range
	"xNTLM",     // 5 bytes, not "NTLM ": [0:10] out of range
	"NTLMx",     // 5 bytes
	"Negotiate", // 9 bytes: [0:10] out of range
	"aNTLMb",    // 6 bytes
}

func defect5Serve(h http.Handler, authz string) (w *httptest.ResponseRecorder, panicked interface{}) {
	r := httptest.NewRequest(http.MethodGet, "/remoteDesktopGateway/", nil)
	r.Header.Set("Authorization", authz)
	w = httptest.NewRecorder()
	defer func() { panicked = recover() }()
	h.ServeHTTP(w, r)
	return w, nil
}

// Direct call of the handler returned by NTLMAuth.
func TestDefect5_NTLMAuthShortAuthorizationHeaderMustNotPanic(t *testing.T) {
	for _, authz := range defect5Headers {
		t.Run(fmt.Sprintf("%q", authz), func(t *testing.T) {
			nextCalled := false
			h := (&NTLMAuthHandler{}).NTLMAuth(func(w http.ResponseWriter, r *http.Request) { nextCalled = true })
			w, p := defect5Serve(h, authz)
			if p != nil {
				t.Errorf("DEFECT: NTLMAuth handler panicked for Authorization: %q: %v", authz, p)
				return
			}
			if nextCalled {
				t.Errorf("wrapped handler reached for malformed Authorization: %q", authz)
			}
			if w.Code != http.StatusUnauthorized {
				t.Logf("note: status %d for Authorization: %q", w.Code, authz)
			}
		})
	}
}

// Same through a gorilla/mux router configured like main.go, proving that
// these header values are actually routed to the NTLM handler.
func TestDefect5_NTLMRoutesLikeMainMustNotPanic(t *testing.T) {
	for _, authz := range defect5Headers {
		t.Run(fmt.Sprintf("%q", authz), func(t *testing.T) {
			nextCalled := false
			gwHandler := func(w http.ResponseWriter, r *http.Request) { nextCalled = true }

			ntlm := NTLMAuthHandler{SocketAddress: "", Timeout: 1}
			r := mux.NewRouter()
			rdp := r.PathPrefix("/remoteDesktopGateway").Subrouter()
			auth := NewAuthMux()
			rdp.MatcherFunc(NoAuthz).HandlerFunc(auth.SetAuthenticate)
			rdp.NewRoute().HeadersRegexp("Authorization", "NTLM").HandlerFunc(ntlm.NTLMAuth(gwHandler))
			rdp.NewRoute().HeadersRegexp("Authorization", "Negotiate").HandlerFunc(ntlm.NTLMAuth(gwHandler))
			auth.Register(`NTLM`)
			auth.Register(`Negotiate`)

			// show that the router selects an NTLM route for this header
			probe := httptest.NewRequest(http.MethodGet, "/remoteDesktopGateway/", nil)
			probe.Header.Set("Authorization", authz)
			var match mux.RouteMatch
			if !r.Match(probe, &match) || match.MatchErr != nil {
				t.Fatalf("harness: router did not match a route for Authorization: %q", authz)
			}

			_, p := defect5Serve(r, authz)
			if p != nil {
				t.Errorf("DEFECT: request with Authorization: %q routed as in main.go panicked: %v", authz, p)
				return
			}
			if nextCalled {
				t.Errorf("gateway handler reached for malformed Authorization: %q", authz)
			}
		})
	}
}

// Control: well-formed prefixes do not panic (no auth backend configured, so
// the request is simply not authenticated).
func TestDefect5_ControlWellFormedHeaders(t *testing.T) {
	for _, authz := range []string{"NTLM TlRMTVNTUAABAAAA", "Negotiate TlRMTVNTUAABAAAA"} {
		nextCalled := false
		h := (&NTLMAuthHandler{}).NTLMAuth(func(w http.ResponseWriter, r *http.Request) { nextCalled = true })
		_, p := defect5Serve(h, authz)
		if p != nil {
			t.Errorf("control: panic for well-formed Authorization: %q: %v", authz, p)
		}
		if nextCalled {
			t.Errorf("control: next reached without any authentication backend for %q", authz)
		}
	}
}
