// Package directory: cmd/rdpgw/web   (package web; file name e.g. v6_demo_test.go)
// Run:
//   export GOFLAGS=-mod=mod GOPROXY=off GOSUMDB=off GOTOOLCHAIN=local
//   go test -count=1 -run 'TestV6' -v ./cmd/rdpgw/web/
//
// Property C15: "The token-info endpoint returns claims with status 200 only
// for a token that decrypts under the configured user-token encryption key,
// verifies under the configured signing key when one is configured, names the
// gateway as issuer and has not expired; every other token is refused with
// 403". Quantifier: both key modes, expired tokens.
//
// LOW SEVERITY / literal reading: unlike C02, C15 grants no leeway. A user
// token whose exp lies up to 60 seconds in the past is still answered with 200
// and its claims, in both key modes (jwt.Claims.Validate applies go-jose's
// DefaultLeeway of one minute). A gateway-minted token (exp = iat + 5 min) is
// therefore honoured for 6 minutes.
package web

import (
	"net/http"
	"net/http/httptest"
	"net/url"
	"testing"
	"time"

	"github.com/bolkedebruin/rdpgw/cmd/rdpgw/security"
	"github.com/go-jose/go-jose/v4"
	"github.com/go-jose/go-jose/v4/jwt"
)

func v6Token(t *testing.T, encKey, signKey []byte, exp time.Time) string {
	enc, err := jose.NewEncrypter(jose.A128CBC_HS256, jose.Recipient{Algorithm: jose.DIRECT, Key: encKey},
		(&jose.EncrypterOptions{Compression: jose.DEFLATE}).WithContentType("JWT"))
	if err != nil {
		t.Fatal(err)
	}
	claims := jwt.Claims{Subject: "alice", Issuer: "rdpgw", Expiry: jwt.NewNumericDate(exp)}
	var s string
	if len(signKey) > 0 {
		sig, err := jose.NewSigner(jose.SigningKey{Algorithm: jose.HS256, Key: signKey}, nil)
		if err != nil {
			t.Fatal(err)
		}
		s, err = jwt.SignedAndEncrypted(sig, enc).Claims(claims).Serialize()
		if err != nil {
			t.Fatal(err)
		}
	} else {
		s, err = jwt.Encrypted(enc).Claims(claims).Serialize()
		if err != nil {
			t.Fatal(err)
		}
	}
	return s
}

func v6Get(token string) (int, string) {
	req := httptest.NewRequest(http.MethodGet, "/tokeninfo?access_token="+url.QueryEscape(token), nil)
	rr := httptest.NewRecorder()
	TokenInfo(rr, req)
	return rr.Code, rr.Body.String()
}

func TestV6_ExpiredUserTokenStillDisclosesClaims(t *testing.T) {
	encKey := []byte("0123456789abcdef0123456789abcdef")
	signKey := []byte("fedcba9876543210fedcba9876543210")
	for _, mode := range []struct {
		name string
		sign []byte
	}{{"encrypt-only", nil}, {"sign-and-encrypt", signKey}} {
		security.UserEncryptionKey = encKey
		security.UserSigningKey = mode.sign

		// controls
		if code, _ := v6Get(v6Token(t, encKey, mode.sign, time.Now().Add(time.Minute))); code != 200 {
			t.Fatalf("[%s] control: unexpired token refused with %d", mode.name, code)
		}
		if code, _ := v6Get(v6Token(t, encKey, mode.sign, time.Now().Add(-2*time.Minute))); code != 403 {
			t.Fatalf("[%s] control: token expired two minutes ago answered with %d", mode.name, code)
		}

		for _, ago := range []time.Duration{5 * time.Second, 30 * time.Second, 55 * time.Second} {
			code, body := v6Get(v6Token(t, encKey, mode.sign, time.Now().Add(-ago)))
			if code != http.StatusForbidden {
				t.Errorf("[%s] token expired %s ago: status %d body %s (required: 403, no claims)", mode.name, ago, code, body)
			}
		}
	}
}
