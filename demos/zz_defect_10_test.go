package ntlm

// Demonstration for fix "one authenticate attempt per NTLM challenge" (C14): go-ntlm caches the
// response keys of the first user a server session checks, so a second authenticate message on the
// same session is verified against the FIRST user's password whatever user it names. Somebody who
// knows alice's password could log in as bobby: one failing attempt naming alice, then an attempt
// naming bobby with a response computed from alice's key. Copy into cmd/auth/ntlm and run:
//   go test -vet=off -run TestZZDefect10 ./cmd/auth/ntlm/
// Fails before the fix commit, passes after it.

import (
	"bytes"
	"encoding/base64"
	"testing"
	"unicode/utf16"

	"github.com/bolkedebruin/rdpgw/cmd/auth/config"
	"github.com/bolkedebruin/rdpgw/cmd/auth/database"
	"github.com/bolkedebruin/rdpgw/shared/auth"
	"github.com/m7913d/go-ntlm/ntlm"
)

func zz10utf16(s string) []byte {
	var b []byte
	for _, u := range utf16.Encode([]rune(s)) {
		b = append(b, byte(u), byte(u>>8))
	}
	return b
}

func TestZZDefect10SecondAttemptIsCheckedAgainstTheNamedUser(t *testing.T) {
	db := database.NewConfig([]config.UserConfig{{Username: "alice", Password: "alice-secret"}, {Username: "bobby", Password: "bobby-secret"}})
	server := NewNTLMAuth(db)
	const session = "S"
	send := func(msg []byte) *auth.NtlmResponse {
		r, _ := server.Authenticate(&auth.NtlmRequest{Session: session, NtlmMessage: base64.StdEncoding.EncodeToString(msg)})
		return r
	}
	// the attacker knows alice's password only
	client := ntlm.V2ClientSession{}
	client.SetUserInfo("alice", "alice-secret", "")
	neg, err := client.GenerateNegotiateMessage()
	if err != nil {
		t.Fatal(err)
	}
	r := send(neg.Bytes())
	if r == nil || r.NtlmMessage == "" {
		t.Fatal("no challenge")
	}
	raw, _ := base64.StdEncoding.DecodeString(r.NtlmMessage)
	chal, err := ntlm.ParseChallengeMessage(raw)
	if err != nil {
		t.Fatal(err)
	}
	client.ProcessChallengeMessage(chal)
	am, err := client.GenerateAuthenticateMessage()
	if err != nil {
		t.Fatal(err)
	}
	good := am.Bytes()
	// attempt 1: names alice, response spoiled -> refused, but the session now holds alice's keys
	bad := append([]byte{}, good...)
	bad[len(bad)-1] ^= 0xff
	bad[int(am.NtChallengeResponseFields.Offset)] ^= 0xff
	if r := send(bad); r != nil && r.Authenticated {
		t.Fatal("spoiled response accepted")
	}
	// attempt 2: the valid response for alice with the user name field rewritten to bobby
	forged := bytes.Replace(good, zz10utf16("alice"), zz10utf16("bobby"), 1)
	if bytes.Equal(forged, good) {
		t.Fatal("could not rewrite the user name")
	}
	if r := send(forged); r != nil && r.Authenticated {
		t.Fatalf("authenticated as %q with a proof of alice's password", r.Username)
	}
}
