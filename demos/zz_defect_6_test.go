package kdcproxy

// Claim 6: krb5Config.GetKDCs returns a map keyed 1..count, but
// (*KerberosProxy).forward uses those keys as indexes into a slice of length
// tcpCnt+udpCnt, so the highest tcp entry is written at index len(kdcs) and the
// first request for any realm with a configured KDC panics (index out of
// range) before any network I/O.

import (
	"bytes"
	"fmt"
	"net"
	"net/http"
	"net/http/httptest"
	"os"
	"path/filepath"
	"testing"
	"time"

	krbconfig "github.com/bolkedebruin/gokrb5/v8/config"
	"github.com/jcmturner/gofork/encoding/asn1"
)

const defect6Realm = "DEFECT6.TEST"

// defect6FakeKDC listens on one loopback port for both tcp and udp and answers
// every request with a fixed blob, so that a corrected forward() has something
// to talk to. (The defective code never gets as far as dialing.)
func defect6FakeKDC(t *testing.T) string {
	t.Helper()
	var tl net.Listener
	var uc net.PacketConn
	var err error
	for attempt := 0; attempt < 20; attempt++ {
		tl, err = net.Listen("tcp", "127.0.0.1:0")
		if err != nil {
			t.Fatal(err)
		}
		uc, err = net.ListenPacket("udp", tl.Addr().String())
		if err == nil {
			break
		}
		tl.Close()
	}
	if err != nil {
		t.Fatalf("cannot get a tcp+udp loopback port: %v", err)
	}
	t.Cleanup(func() { tl.Close(); uc.Close() })

	reply := []byte{0, 0, 0, 4, 'p', 'o', 'n', 'g'}
	go func() {
		for {
			c, err := tl.Accept()
			if err != nil {
				return
			}
			go func(c net.Conn) {
				defer c.Close()
				buf := make([]byte, 4096)
				c.SetDeadline(time.Now().Add(2 * time.Second))
				c.Read(buf)
				c.Write(reply)
			}(c)
		}
	}()
	go func() {
		buf := make([]byte, 4096)
		for {
			_, addr, err := uc.ReadFrom(buf)
			if err != nil {
				return
			}
			uc.WriteTo(reply[4:], addr)
		}
	}()
	return tl.Addr().String()
}

func defect6Conf(kdcs ...string) string {
	var b bytes.Buffer
	fmt.Fprintf(&b, "[libdefaults]\n default_realm = %s\n dns_lookup_kdc = false\n dns_lookup_realm = false\n\n[realms]\n %s = {\n", defect6Realm, defect6Realm)
	for _, k := range kdcs {
		fmt.Fprintf(&b, "  kdc = %s\n", k)
	}
	b.WriteString(" }\n")
	return b.String()
}

// defect6Call runs f, converting a panic into a value. If f neither returns nor
// panics within the timeout, timedOut is reported (the claim is about a panic
// only, so a slow/hanging but non-panicking forward is not counted as this
// defect).
func defect6Call(f func()) (panicked interface{}, timedOut bool) {
	done := make(chan interface{}, 1)
	go func() {
		defer func() { done <- recover() }()
		f()
	}()
	select {
	case p := <-done:
		return p, false
	case <-time.After(7 * time.Second):
		return nil, true
	}
}

var defect6Data = []byte{0, 0, 0, 4, 'p', 'i', 'n', 'g'} // 4 byte length prefix + payload

func TestDefect6_ForwardMustNotPanicOnConfiguredKDCs(t *testing.T) {
	for _, n := range []int{1, 2} {
		t.Run(fmt.Sprintf("%dkdc", n), func(t *testing.T) {
			var kdcs []string
			for i := 0; i < n; i++ {
				kdcs = append(kdcs, defect6FakeKDC(t))
			}

			// load the configuration the way InitKdcProxy does: from a file
			path := filepath.Join(t.TempDir(), "krb5.conf")
			if err := os.WriteFile(path, []byte(defect6Conf(kdcs...)), 0o600); err != nil {
				t.Fatal(err)
			}
			cfg, err := krbconfig.Load(path)
			if err != nil {
				t.Fatalf("krb5.conf does not load: %v", err)
			}
			cnt, m, err := cfg.GetKDCs(defect6Realm, true)
			if err != nil || cnt != n {
				t.Fatalf("harness: GetKDCs = %d, %v, %v", cnt, m, err)
			}
			t.Logf("GetKDCs(%q) = count %d, map %v", defect6Realm, cnt, m)

			k := &KerberosProxy{krb5Config: cfg}
			var resp []byte
			var ferr error
			p, timedOut := defect6Call(func() { resp, ferr = k.forward(defect6Realm, defect6Data) })
			if p != nil {
				t.Errorf("DEFECT: forward(%q, ...) panicked with %d configured kdc(s): %v", defect6Realm, n, p)
				return
			}
			if timedOut {
				t.Logf("note: forward did not panic but did not return within the timeout either")
				return
			}
			t.Logf("forward returned resp=%q err=%v", resp, ferr)
		})
	}
}

// The same through the HTTP handler with a DER encoded KDC_PROXY_MESSAGE, as a
// remote client would send it to /KdcProxy.
func TestDefect6_HandlerMustNotPanicOnKdcProxyMessage(t *testing.T) {
	cfg, err := krbconfig.NewFromString(defect6Conf(defect6FakeKDC(t)))
	if err != nil {
		t.Fatalf("krb5.conf does not parse: %v", err)
	}
	k := KerberosProxy{krb5Config: cfg}

	body, err := asn1.Marshal(KdcProxyMsg{Message: defect6Data, Realm: defect6Realm})
	if err != nil {
		t.Fatal(err)
	}
	// make sure the real decoder accepts what we send
	if msg, err := decode(body); err != nil || msg.Realm != defect6Realm || !bytes.Equal(msg.Message, defect6Data) {
		t.Fatalf("harness: request does not decode: %+v %v", msg, err)
	}

	r := httptest.NewRequest(http.MethodPost, "/KdcProxy", bytes.NewReader(body))
	r.Header.Set("Content-Type", "application/kerberos")
	w := httptest.NewRecorder()

	p, timedOut := defect6Call(func() { k.Handler(w, r) })
	if p != nil {
		t.Errorf("DEFECT: POST /KdcProxy with a well-formed KDC_PROXY_MESSAGE for realm %q panicked the handler: %v", defect6Realm, p)
		return
	}
	if timedOut {
		t.Logf("note: handler did not panic but did not return within the timeout either")
		return
	}
	t.Logf("handler answered %d", w.Code)
}

// Control: a realm without any KDC is refused with an error, no panic.
func TestDefect6_ControlUnknownRealm(t *testing.T) {
	cfg, err := krbconfig.NewFromString(defect6Conf(defect6FakeKDC(t)))
	if err != nil {
		t.Fatal(err)
	}
	k := &KerberosProxy{krb5Config: cfg}
	var ferr error
	p, timedOut := defect6Call(func() { _, ferr = k.forward("NO.SUCH.REALM", defect6Data) })
	if p != nil || timedOut || ferr == nil {
		t.Errorf("control: forward for an unknown realm: panic=%v timedOut=%v err=%v", p, timedOut, ferr)
	}
}
