// Package directory: cmd/rdpgw/kdcproxy   (file name e.g. v1_demo_test.go)
// Run:
//   export GOFLAGS=-mod=mod GOPROXY=off GOSUMDB=off GOTOOLCHAIN=local
//   go test -count=1 -run 'TestV1' -v ./cmd/rdpgw/kdcproxy/
//
// Property C20: a well-formed KDC-PROXY-MESSAGE for a configured realm is sent
// to a KDC *of that realm*; a request for an unknown realm is answered (503)
// and nothing is sent to any KDC.
//
// The request bodies below are encoded exactly as MS-KKDCP 2.2.2 / RFC 4120
// prescribe (and as Windows, MIT krb5 and Heimdal clients send them):
//
//   KDC-PROXY-MESSAGE ::= SEQUENCE {
//       kerb-message   [0] OCTET STRING,
//       target-domain  [1] KERB-REALM OPTIONAL,   -- GeneralString, EXPLICIT tag
//       dclocator-hint [2] INTEGER OPTIONAL }
//
// i.e.  30 L  a0 L 04 L <msg>  a1 L 1b L <realm>
package kdcproxy

import (
	"bytes"
	"encoding/binary"
	"fmt"
	"io"
	"net"
	"net/http"
	"net/http/httptest"
	"sync"
	"testing"
	"time"

	krbconfig "github.com/bolkedebruin/gokrb5/v8/config"
)

// fakeKDC listens on tcp and udp on the same loopback port, records what it
// receives and answers with a fixed reply that names the KDC.
type fakeKDC struct {
	name string
	addr string
	mu   sync.Mutex
	got  [][]byte
	tcp  net.Listener
	udp  net.PacketConn
}

func (k *fakeKDC) received() [][]byte {
	k.mu.Lock()
	defer k.mu.Unlock()
	return append([][]byte{}, k.got...)
}

func newFakeKDC(t *testing.T, name string) *fakeKDC {
	t.Helper()
	var l net.Listener
	var u net.PacketConn
	var err error
	for i := 0; i < 20; i++ {
		l, err = net.Listen("tcp", "127.0.0.1:0")
		if err != nil {
			t.Fatal(err)
		}
		u, err = net.ListenPacket("udp", l.Addr().String())
		if err == nil {
			break
		}
		l.Close()
	}
	if err != nil {
		t.Fatal(err)
	}
	k := &fakeKDC{name: name, addr: l.Addr().String(), tcp: l, udp: u}
	reply := []byte("reply-from-" + name)
	go func() {
		for {
			c, err := l.Accept()
			if err != nil {
				return
			}
			go func(c net.Conn) {
				defer c.Close()
				c.SetDeadline(time.Now().Add(3 * time.Second))
				p := make([]byte, 4)
				if _, err := io.ReadFull(c, p); err != nil {
					return
				}
				body := make([]byte, binary.BigEndian.Uint32(p))
				if _, err := io.ReadFull(c, body); err != nil {
					return
				}
				k.mu.Lock()
				k.got = append(k.got, body)
				k.mu.Unlock()
				out := make([]byte, 4+len(reply))
				binary.BigEndian.PutUint32(out, uint32(len(reply)))
				copy(out[4:], reply)
				c.Write(out)
			}(c)
		}
	}()
	go func() {
		buf := make([]byte, 65536)
		for {
			n, from, err := u.ReadFrom(buf)
			if err != nil {
				return
			}
			k.mu.Lock()
			k.got = append(k.got, append([]byte{}, buf[:n]...))
			k.mu.Unlock()
			u.WriteTo(reply, from)
		}
	}()
	t.Cleanup(func() { l.Close(); u.Close() })
	return k
}

// tlv builds a DER TLV with a definite short/long form length.
func tlv(tag byte, val []byte) []byte {
	var l []byte
	switch {
	case len(val) < 0x80:
		l = []byte{byte(len(val))}
	case len(val) < 0x100:
		l = []byte{0x81, byte(len(val))}
	default:
		l = []byte{0x82, byte(len(val) >> 8), byte(len(val))}
	}
	return append(append([]byte{tag}, l...), val...)
}

// kkdcpMessage encodes a KDC-PROXY-MESSAGE per MS-KKDCP (explicit tags,
// target-domain is a GeneralString).
func kkdcpMessage(krb []byte, realm string) []byte {
	inner := tlv(0xa0, tlv(0x04, krb))
	if realm != "" {
		inner = append(inner, tlv(0xa1, tlv(0x1b, []byte(realm)))...)
	}
	return tlv(0x30, inner)
}

func setup(t *testing.T) (*httptest.Server, *fakeKDC, *fakeKDC) {
	a := newFakeKDC(t, "A")
	b := newFakeKDC(t, "B")
	cfg, err := krbconfig.NewFromString(fmt.Sprintf(`
[libdefaults]
 default_realm = A.TEST
 dns_lookup_kdc = false
 dns_lookup_realm = false

[realms]
 A.TEST = {
  kdc = %s
 }
 B.TEST = {
  kdc = %s
 }
`, a.addr, b.addr))
	if err != nil {
		t.Fatal(err)
	}
	k := KerberosProxy{krb5Config: cfg}
	srv := httptest.NewServer(http.HandlerFunc(k.Handler))
	t.Cleanup(srv.Close)
	return srv, a, b
}

func krbPayload() []byte {
	msg := []byte("AS-REQ-for-realm-B")
	out := make([]byte, 4+len(msg))
	binary.BigEndian.PutUint32(out, uint32(len(msg)))
	copy(out[4:], msg)
	return out
}

func post(t *testing.T, url string, body []byte) (int, []byte) {
	t.Helper()
	c := &http.Client{Timeout: 20 * time.Second}
	resp, err := c.Post(url, "application/kerberos", bytes.NewReader(body))
	if err != nil {
		t.Fatalf("no http response: %v", err)
	}
	defer resp.Body.Close()
	rb, _ := io.ReadAll(resp.Body)
	return resp.StatusCode, rb
}

// A request that names the configured, non default realm B.TEST has to go to
// the KDC of B.TEST.
func TestV1_ConfiguredRealmGoesToItsOwnKDC(t *testing.T) {
	srv, a, b := setup(t)
	status, body := post(t, srv.URL, kkdcpMessage(krbPayload(), "B.TEST"))
	time.Sleep(200 * time.Millisecond)
	t.Logf("status %d body %q", status, body)
	t.Logf("KDC of A.TEST received %d message(s), KDC of B.TEST received %d message(s)",
		len(a.received()), len(b.received()))
	if n := len(a.received()); n != 0 {
		t.Errorf("the KDC of the default realm A.TEST received %d message(s) that were addressed to realm B.TEST: %q", n, a.received())
	}
	if len(b.received()) == 0 {
		t.Errorf("the KDC of the requested realm B.TEST received nothing")
	}
	if status == 200 && !bytes.Contains(body, []byte("reply-from-B")) {
		t.Errorf("the reply handed to the client does not come from the KDC of B.TEST: %q", body)
	}
}

// A request for a realm that is not configured must be answered with an error
// and must not be sent to any KDC.
func TestV1_UnknownRealmIsNotForwarded(t *testing.T) {
	srv, a, b := setup(t)
	status, body := post(t, srv.URL, kkdcpMessage(krbPayload(), "NOPE.TEST"))
	time.Sleep(200 * time.Millisecond)
	t.Logf("status %d body %q", status, body)
	if status == 200 {
		t.Errorf("request for unknown realm NOPE.TEST answered with 200 %q", body)
	}
	if n := len(a.received()) + len(b.received()); n != 0 {
		t.Errorf("request for unknown realm NOPE.TEST was forwarded to a KDC (A got %d, B got %d message(s))",
			len(a.received()), len(b.received()))
	}
}

// Control: the decoder does understand the field when it is encoded the way
// this package's own struct tags describe it (implicit [1], no GeneralString),
// which no Kerberos client produces. This one passes and shows that the
// routing itself works and that only the decoding of target-domain is wrong.
func TestV1_ControlImplicitTagEncodingIsRouted(t *testing.T) {
	srv, a, b := setup(t)
	inner := tlv(0xa0, tlv(0x04, krbPayload()))
	inner = append(inner, tlv(0x81, []byte("B.TEST"))...)
	status, body := post(t, srv.URL, tlv(0x30, inner))
	time.Sleep(200 * time.Millisecond)
	if status != 200 || len(a.received()) != 0 || len(b.received()) == 0 {
		t.Fatalf("control failed: status %d body %q A=%d B=%d", status, body, len(a.received()), len(b.received()))
	}
}
