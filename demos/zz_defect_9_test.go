package kdcproxy

// Demonstration for fix "kdcproxy reads one kerberos message from the kdc" (C20):
// a reply that a KDC sends over UDP, or over a TCP connection it keeps open, must be
// relayed; reading until the KDC closes the connection only ended at the 5 s deadline,
// with an error, and the reply was thrown away. Copy into cmd/rdpgw/kdcproxy and run:
//   go test -vet=off -run TestZZDefect9 ./cmd/rdpgw/kdcproxy/
// Fails before the fix commit, passes after it.

import (
	"encoding/binary"
	"fmt"
	"io"
	"net"
	"os"
	"path/filepath"
	"testing"
	"time"
)

func zz9conf(t *testing.T, port int) KerberosProxy {
	conf := filepath.Join(t.TempDir(), "krb5.conf")
	os.WriteFile(conf, []byte(fmt.Sprintf("[libdefaults]\n default_realm = EXAMPLE.COM\n dns_lookup_kdc = false\n[realms]\n EXAMPLE.COM = {\n  kdc = 127.0.0.1:%d\n }\n", port)), 0o600)
	return InitKdcProxy(conf)
}

func TestZZDefect9UdpReplyIsRelayed(t *testing.T) {
	pc, err := net.ListenPacket("udp", "127.0.0.1:0")
	if err != nil {
		t.Skip(err)
	}
	defer pc.Close()
	port := pc.LocalAddr().(*net.UDPAddr).Port
	// the tcp port of the same number accepts and stays silent
	if ln, err := net.Listen("tcp", fmt.Sprintf("127.0.0.1:%d", port)); err == nil {
		defer ln.Close()
		go func() {
			for {
				c, err := ln.Accept()
				if err != nil {
					return
				}
				defer c.Close()
			}
		}()
	}
	var got []byte
	go func() {
		buf := make([]byte, 65535)
		for {
			n, addr, err := pc.ReadFrom(buf)
			if err != nil {
				return
			}
			got = append([]byte{}, buf[:n]...)
			pc.WriteTo([]byte{0x6b, 1, 2, 3}, addr)
		}
	}()
	k := zz9conf(t, port)
	start := time.Now()
	resp, err := k.forward("EXAMPLE.COM", []byte{0, 0, 0, 3, 0x6a, 1, 0})
	if err != nil {
		t.Fatalf("the kdc answered over udp at once, forward failed after %v: %v", time.Since(start), err)
	}
	if string(resp) != string([]byte{0, 0, 0, 4, 0x6b, 1, 2, 3}) {
		t.Fatalf("reply not relayed with its length prefix: %x", resp)
	}
	if string(got) != string([]byte{0x6a, 1, 0}) {
		t.Fatalf("kdc received %x over udp, want the message without its length prefix", got)
	}
}

func TestZZDefect9TcpReplyOnOpenConnectionIsRelayed(t *testing.T) {
	ln, err := net.Listen("tcp", "127.0.0.1:0")
	if err != nil {
		t.Skip(err)
	}
	defer ln.Close()
	port := ln.Addr().(*net.TCPAddr).Port
	go func() {
		for {
			c, err := ln.Accept()
			if err != nil {
				return
			}
			go func(c net.Conn) {
				defer c.Close()
				hdr := make([]byte, 4)
				if _, err := io.ReadFull(c, hdr); err != nil {
					return
				}
				body := make([]byte, binary.BigEndian.Uint32(hdr))
				io.ReadFull(c, body)
				c.Write([]byte{0, 0, 0, 4, 0x6b, 1, 2, 3})
				time.Sleep(8 * time.Second) // keeps the connection open, like MIT and AD kdcs do
			}(c)
		}
	}()
	k := zz9conf(t, port)
	start := time.Now()
	resp, err := k.forward("EXAMPLE.COM", []byte{0, 0, 0, 3, 0x6a, 1, 0})
	if err != nil {
		t.Fatalf("the kdc answered over tcp at once, forward failed after %v: %v", time.Since(start), err)
	}
	if string(resp) != string([]byte{0, 0, 0, 4, 0x6b, 1, 2, 3}) {
		t.Fatalf("reply not relayed verbatim: %x", resp)
	}
	if d := time.Since(start); d > 3*time.Second {
		t.Fatalf("reply relayed only after %v", d)
	}
}
