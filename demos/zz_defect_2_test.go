package protocol

// Defect 2: on the legacy (non-websocket) transport a client that sends the
// RDG_IN_DATA request for a connection id before (or without) the RDG_OUT_DATA
// request makes (*Gateway).handleLegacyProtocol start the packet loop with
// Tunnel.transportOut == nil. The first response write
// (Tunnel.Write -> t.transportOut.WritePacket) is a method call on a nil
// interface: a runtime panic.
//
// The test drives the real (*Gateway).HandleGatewayProtocol through an
// httptest server with a raw TCP client. It FAILS if the handler panics.

import (
	"bufio"
	"bytes"
	"encoding/binary"
	"fmt"
	"io"
	"log"
	"net"
	"net/http"
	"net/http/httptest"
	"runtime/debug"
	"strings"
	"sync"
	"testing"
	"time"

	"github.com/bolkedebruin/rdpgw/cmd/rdpgw/identity"
)

type defect2LogBuf struct {
	mu  sync.Mutex
	buf bytes.Buffer
}

func (l *defect2LogBuf) Write(p []byte) (int, error) {
	l.mu.Lock()
	defer l.mu.Unlock()
	return l.buf.Write(p)
}

func (l *defect2LogBuf) String() string {
	l.mu.Lock()
	defer l.mu.Unlock()
	return l.buf.String()
}

func TestDefect2LegacyInBeforeOutPanics(t *testing.T) {
	gw := &Gateway{}

	type result struct {
		panicked bool
		value    interface{}
		stack    string
	}
	handlerDone := make(chan result, 1)
	srvLog := &defect2LogBuf{}

	srv := httptest.NewUnstartedServer(http.HandlerFunc(func(w http.ResponseWriter, r *http.Request) {
		res := result{}
		defer func() {
			if v := recover(); v != nil {
				res.panicked = true
				res.value = v
				res.stack = string(debug.Stack())
				handlerDone <- res
				// let net/http see (and log) the panic exactly as it would in production
				panic(v)
			}
			handlerDone <- res
		}()
		// the same thing web.EnrichContext does
		id := identity.NewUser()
		id.SetAttribute(identity.AttrRemoteAddr, r.RemoteAddr)
		id.SetAttribute(identity.AttrClientIp, "127.0.0.1")
		gw.HandleGatewayProtocol(w, identity.AddToRequestCtx(id, r))
	}))
	srv.Config.ErrorLog = log.New(srvLog, "", 0)
	srv.Start()
	defer srv.Close()

	conn, err := net.Dial("tcp", srv.Listener.Addr().String())
	if err != nil {
		t.Fatalf("cannot connect to gateway: %s", err)
	}
	defer conn.Close()

	connId := fmt.Sprintf("defect2-%d", time.Now().UnixNano())
	req := MethodRDGIN + " /remoteDesktopGateway/ HTTP/1.1\r\n" +
		"Host: " + srv.Listener.Addr().String() + "\r\n" +
		rdgConnectionIdKey + ": " + connId + "\r\n" +
		"\r\n"
	if _, err := io.WriteString(conn, req); err != nil {
		t.Fatalf("cannot send RDG_IN_DATA request: %s", err)
	}

	// read the "200 OK" the gateway sends from SendAccept(false)
	conn.SetReadDeadline(time.Now().Add(5 * time.Second))
	br := bufio.NewReader(conn)
	status, err := br.ReadString('\n')
	if err != nil {
		t.Fatalf("no response to RDG_IN_DATA: %s", err)
	}
	if strings.HasPrefix(status, "HTTP/1.1 4") {
		// the gateway refuses RDG_IN_DATA without an outgoing channel: no packet loop, no panic
		return
	}
	if !strings.HasPrefix(status, "HTTP/1.1 200") {
		t.Fatalf("unexpected response to RDG_IN_DATA: %q", status)
	}
	for {
		line, err := br.ReadString('\n')
		if err != nil {
			t.Fatalf("cannot read response headers: %s", err)
		}
		if line == "\r\n" {
			break
		}
	}

	// in.Drain() consumes one Read worth of initial bytes from the raw connection
	if _, err := conn.Write([]byte("\r\n")); err != nil {
		t.Fatalf("cannot send initial bytes: %s", err)
	}
	time.Sleep(300 * time.Millisecond)

	// one MS-TSGU handshake request inside one HTTP chunk
	pkt := new(bytes.Buffer)
	binary.Write(pkt, binary.LittleEndian, uint16(PKT_TYPE_HANDSHAKE_REQUEST))
	binary.Write(pkt, binary.LittleEndian, uint16(0))  // reserved
	binary.Write(pkt, binary.LittleEndian, uint32(14)) // total length
	pkt.Write([]byte{1, 0})                            // major, minor
	binary.Write(pkt, binary.LittleEndian, uint16(0))  // version
	binary.Write(pkt, binary.LittleEndian, uint16(0))  // ext auth
	chunk := fmt.Sprintf("%x\r\n", pkt.Len()) + pkt.String() + "\r\n"
	if _, err := io.WriteString(conn, chunk); err != nil {
		t.Fatalf("cannot send handshake chunk: %s", err)
	}

	select {
	case res := <-handlerDone:
		if res.panicked {
			time.Sleep(100 * time.Millisecond) // let net/http write its log line
			t.Errorf("DEFECT 2 present: HandleGatewayProtocol panicked when RDG_IN_DATA arrived without RDG_OUT_DATA "+
				"(Tunnel.transportOut == nil): %v\nnet/http server log: %s\nstack:\n%s",
				res.value, strings.SplitN(srvLog.String(), "\n", 2)[0], defect2TrimStack(res.stack))
		}
	case <-time.After(3 * time.Second):
		// no panic: the handler is still (legitimately) waiting for packets
	}
}

// defect2TrimStack keeps only the frames of this repository.
func defect2TrimStack(s string) string {
	lines := strings.Split(s, "\n")
	var out []string
	for i := 0; i+1 < len(lines); i++ {
		if strings.Contains(lines[i], "rdpgw/cmd/rdpgw/protocol.") && !strings.Contains(lines[i], "TestDefect2") {
			out = append(out, lines[i], lines[i+1])
		}
	}
	return strings.Join(out, "\n")
}
