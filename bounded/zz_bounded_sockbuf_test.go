package protocol

// BOUNDED stand-in (never counted as proved) for (*Gateway).setSendReceiveBuffers,
// which walks reflect.Value and is outside gocv's verified subset.
// Bound: connection kinds {*tls.Conn over TCP, *net.TCPConn, *tls.Conn over net.Pipe,
// net.Pipe end, *net.UnixConn} x SendBuf in {0,1,65536} x ReceiveBuf in {0,1,65536}.
// Property (C10): no panic for any of these; an error return is fine.

import (
	"crypto/tls"
	"fmt"
	"net"
	"os"
	"path/filepath"
	"testing"
)

func TestZZBoundedSetSendReceiveBuffers(t *testing.T) {
	ln, err := net.Listen("tcp", "127.0.0.1:0")
	if err != nil {
		t.Skip("no loopback listener: ", err)
	}
	defer ln.Close()
	accepted := make(chan net.Conn, 4)
	go func() {
		for {
			c, err := ln.Accept()
			if err != nil {
				return
			}
			accepted <- c
		}
	}()
	dial := func() net.Conn {
		c, err := net.Dial("tcp", ln.Addr().String())
		if err != nil {
			t.Fatal(err)
		}
		return c
	}
	c1 := dial()
	s1 := <-accepted
	defer c1.Close()
	defer s1.Close()
	c2 := dial()
	s2 := <-accepted
	defer c2.Close()
	defer s2.Close()
	p1, p2 := net.Pipe()
	defer p1.Close()
	defer p2.Close()
	sock := filepath.Join(t.TempDir(), "s")
	var unixSrv net.Conn
	if ul, err := net.Listen("unix", sock); err == nil {
		defer ul.Close()
		go func() { c, _ := ul.Accept(); _ = c }()
		unixSrv, _ = net.Dial("unix", sock)
	}
	conns := []struct {
		name string
		c    net.Conn
	}{
		{"tls-over-tcp", tls.Server(s1, &tls.Config{})},
		{"plain-tcp", s2},
		{"tls-over-pipe", tls.Server(p1, &tls.Config{})},
		{"pipe", p2},
	}
	if unixSrv != nil {
		defer unixSrv.Close()
		conns = append(conns, struct {
			name string
			c    net.Conn
		}{"unix", unixSrv})
	}
	cases := 0
	for _, cn := range conns {
		for _, sb := range []int{0, 1, 65536} {
			for _, rb := range []int{0, 1, 65536} {
				cases++
				func() {
					defer func() {
						if r := recover(); r != nil {
							fmt.Fprintf(os.Stdout, "BOUNDED-FAIL conn=%s SendBuf=%d ReceiveBuf=%d panic=%v\n", cn.name, sb, rb, r)
							t.Fail()
						}
					}()
					g := &Gateway{SendBuf: sb, ReceiveBuf: rb}
					_ = g.setSendReceiveBuffers(cn.c)
				}()
			}
		}
	}
	fmt.Fprintf(os.Stdout, "BOUNDED-CASES %d\n", cases)
}
