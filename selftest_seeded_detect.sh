#!/bin/sh
# For every seeded change: apply it to /repo, run the quick check of the property it breaks,
# expect exit 1 with a VIOLATION line, undo the change. /repo must be clean.
SRC=${1:-/verif/seeded}
if [ -n "$(git -C /repo status --porcelain)" ]; then echo "refusing: /repo has uncommitted changes"; exit 3; fi
rc=0
for d in "$SRC"/C*; do
  id=$(basename "$d"); prop=$(echo $id | cut -c1-3)
  git -C /repo apply "$d/patch.diff" || { echo "$id: patch does not apply"; rc=1; continue; }
  out=$(cd /verif && timeout 900 bin/gocv check -p $prop 2>&1); code=$?
  git -C /repo apply -R "$d/patch.diff"
  v=$(echo "$out" | grep -c '^VIOLATION')
  names=$(echo "$out" | grep '^  obligation' | sed 's/^  obligation //; s/ failed.*//' | sort -u | head -4 | tr '\n' ' ')
  conf=$(echo "$out" | grep '^VIOLATION' | grep -vc 'no-failing-input-found')
  if [ $code -eq 1 ] && [ $v -gt 0 ]; then echo "$id: DETECTED ($v violation lines, $conf with replayed input) $names"; else echo "$id: MISSED (exit $code)"; rc=1; fi
done
exit $rc
